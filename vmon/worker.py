"""One shard of one property, in its own process:  python -m vmon.worker <ID> <spec.json> <out.json>"""
import importlib
import json
import sys
import traceback

from . import harness


def _linecov_start():
    """tools/linecov.py: which lines of parso did this shard execute (sys.monitoring LINE, each location reported once)"""
    import os
    mon = sys.monitoring
    hit = set()
    root = os.path.join(harness.REPO, 'parso') + os.sep
    mon.use_tool_id(5, 'vmon-linecov')

    def on_line(code, line):
        if code.co_filename.startswith(root):
            hit.add((code.co_filename[len(root):], line))
        return mon.DISABLE
    mon.register_callback(5, mon.events.LINE, on_line)
    mon.set_events(5, mon.events.LINE)
    return hit


def main():
    pid, specf, outf = sys.argv[1:4]
    with open(specf) as f:
        spec = json.load(f)
    harness.ensure_deps()
    import os
    cov = _linecov_start() if not os.environ.get('VMON_NO_LINECOV') else None
    harness.import_parso()
    mod = importlib.import_module('vmon.props.' + pid.lower())
    ctx = harness.Ctx(pid, spec)
    rc = 0
    try:
        if spec.get('replay') is not None:
            mod.replay(harness.unjson(spec['replay']), ctx)
        else:
            mod.run_shard(spec, ctx)
    except BaseException:
        # a crash of the driver itself is never a verdict on parso
        traceback.print_exc()
        rc = 3
    with open(outf, 'w') as f:
        d = ctx.dump()
        if cov is not None:
            d['linecov'] = sorted(cov)
        json.dump(d, f)
    if cov is not None and os.environ.get('VMON_LINECOV'):
        with open(os.path.join(os.environ['VMON_LINECOV'], 'cov-%s-%d.json' % (pid, os.getpid())), 'w') as f:
            json.dump(sorted(cov), f)
    sys.exit(rc)


if __name__ == '__main__':
    main()
