"""One shard of one property, in its own process:  python -m vmon.worker <ID> <spec.json> <out.json>"""
import importlib
import json
import sys
import traceback

from . import harness


def main():
    pid, specf, outf = sys.argv[1:4]
    with open(specf) as f:
        spec = json.load(f)
    harness.ensure_deps()
    harness.import_parso()
    mod = importlib.import_module('vmon.props.' + pid.lower())
    ctx = harness.Ctx(pid, spec)
    rc = 0
    try:
        if spec.get('replay') is not None:
            mod.replay(harness.unjson(spec['replay']), ctx)
        else:
            mod.run_shard(spec, ctx)
    except BaseException:
        # a crash of the driver itself is never a verdict on parso
        traceback.print_exc()
        rc = 3
    with open(outf, 'w') as f:
        json.dump(ctx.dump(), f)
    sys.exit(rc)


if __name__ == '__main__':
    main()
