"""Runtime contracts on the real parso functions, installed from the harness.

Conditions *record and return True* (DESIGN §1.2): parso and its tests swallow
exceptions in places, so a raising contract would both disturb the execution it
observes and be lost.  Every contract counts its evaluations; a check whose deciding
contract was evaluated zero times is inconclusive.
"""
import collections
import functools
import sys
import types

try:
    import icontract
except Exception:  # pragma: no cover - wheelhouse missing: same call shape, 30 lines
    icontract = None

EVALS = collections.Counter()
_installed = []


class ContractBroken(Exception):
    pass


def _attach(fn, name, post, snap):
    """post(result, args, kwargs, old) ; snap(args, kwargs) -> old"""
    if icontract is not None:
        def cond(result, OLD, _ARGS, _KWARGS):
            EVALS[name] += 1
            post(result, _ARGS, _KWARGS, OLD.old)
            return True

        def snapf(_ARGS, _KWARGS):
            return snap(_ARGS, _KWARGS) if snap is not None else None
        return icontract.snapshot(snapf, name='old')(icontract.ensure(cond, error=ContractBroken)(fn))

    @functools.wraps(fn)
    def wrapper(*a, **k):
        old = snap(a, k) if snap is not None else None
        r = fn(*a, **k)
        EVALS[name] += 1
        post(r, a, k, old)
        return r
    return wrapper


def install(owner, attr, post, snap=None, on_raise=None, label=None):
    """Attach a recording post-condition (and an exception observer) to owner.attr.
    Names bound earlier by `from m import f` are rebound in every parso module."""
    label = label or '%s.%s' % (getattr(owner, '__name__', owner), attr)
    raw = owner.__dict__[attr] if isinstance(owner, type) else getattr(owner, attr)
    kind = None
    fn = raw
    if isinstance(raw, staticmethod):
        kind, fn = staticmethod, raw.__func__
    elif isinstance(raw, classmethod):
        kind, fn = classmethod, raw.__func__
    wrapped = _attach(fn, label, post, snap)
    if on_raise is not None:
        inner = wrapped

        @functools.wraps(fn)
        def wrapped(*a, **k):
            try:
                return inner(*a, **k)
            except ContractBroken:
                raise
            except BaseException as e:
                EVALS[label + ':raised'] += 1
                on_raise(e, a, k)
                raise
    new = kind(wrapped) if kind else wrapped
    setattr(owner, attr, new)
    n = 0
    if isinstance(owner, types.ModuleType):
        for mname, mod in list(sys.modules.items()):
            if mod is None or not mname.startswith('parso') or mod is owner:
                continue
            for k, v in list(vars(mod).items()):
                if v is raw:
                    setattr(mod, k, new)
                    n += 1
    _installed.append((owner, attr, raw))
    return n


def uninstall_all():
    while _installed:
        owner, attr, raw = _installed.pop()
        cur = owner.__dict__[attr] if isinstance(owner, type) else getattr(owner, attr)
        setattr(owner, attr, raw)
        if isinstance(owner, types.ModuleType):
            for mname, mod in list(sys.modules.items()):
                if mod is None or not mname.startswith('parso') or mod is owner:
                    continue
                for k, v in list(vars(mod).items()):
                    if v is cur:
                        setattr(mod, k, raw)
    EVALS.clear()


def wrap_generator(owner, attr, checker_factory, label=None):
    """Online stream checker: checker_factory(args, kwargs) -> object with .item(x), .done(),
    .raised(exc).  Each produced item is seen as it is produced."""
    label = label or '%s.%s' % (getattr(owner, '__name__', owner), attr)
    raw = getattr(owner, attr)

    @functools.wraps(raw)
    def gen(*a, **k):
        ck = checker_factory(a, k)
        EVALS[label] += 1
        try:
            for x in raw(*a, **k):
                ck.item(x)
                yield x
        except GeneratorExit:
            raise
        except BaseException as e:
            ck.raised(e)
            raise
        else:
            ck.done()
    setattr(owner, attr, gen)
    if isinstance(owner, types.ModuleType):
        for mname, mod in list(sys.modules.items()):
            if mod is None or not mname.startswith('parso') or mod is owner:
                continue
            for kk, v in list(vars(mod).items()):
                if v is raw:
                    setattr(mod, kk, gen)
    _installed.append((owner, attr, raw))
