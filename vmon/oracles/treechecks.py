"""Invariant walks over a live tree (C01 C02 C03 C11).  Each returns a list of
(kind, message) pairs; an empty list means the invariant held on this tree."""
from .common import BOM, adv, is_virtual, leaves, ref_split_lines, walk


def _first_diff(a, b):
    n = min(len(a), len(b))
    for i in range(n):
        if a[i] != b[i]:
            return 'at %d: %r != %r' % (i, a[max(0, i - 8):i + 8], b[max(0, i - 8):i + 8])
    return 'length %d != %d; tail %r / %r' % (len(a), len(b), a[n:n + 16], b[n:n + 16])


# --------------------------------------------------------------------- C01
def check_roundtrip(root, text, rng=None, node_cap=2000, sample=300):
    out = []
    code = root.get_code()
    if code != text:
        out.append(('root_code', 'get_code() != input ' + _first_diff(code, text)))
    ls = leaves(root)
    off = 0
    span = {}
    for l in ls:
        if not isinstance(l.prefix, str) or not isinstance(l.value, str):
            out.append(('leaf_not_str', '%r prefix/value not str' % (l,)))
            return out
        ps = off
        off += len(l.prefix)
        vs = off
        off += len(l.value)
        span[id(l)] = (ps, vs, off)
    tiled = ''.join(l.prefix + l.value for l in ls)
    if tiled != text:
        out.append(('leaf_tiling', 'concatenated prefix+value != input ' + _first_diff(tiled, text)))
        return out
    nodes = list(walk(root))
    if len(nodes) > node_cap and rng is not None:
        nodes = rng.sample(nodes, sample)
    for n in nodes:
        f = n
        while hasattr(f, 'children'):
            if not f.children:
                break
            f = f.children[0]
        l = n
        while hasattr(l, 'children'):
            if not l.children:
                break
            l = l.children[-1]
        if id(f) not in span or id(l) not in span:
            continue  # empty interior node: C02's business
        ps, vs, _ = span[id(f)]
        e = span[id(l)][2]
        got = n.get_code()
        if got != text[ps:e]:
            out.append(('node_code', '%s at %s: get_code() is not its slice: %s' % (n.type, n.start_pos, _first_diff(got, text[ps:e]))))
            break
        got = n.get_code(include_prefix=False)
        if got != text[vs:e]:
            out.append(('node_code_noprefix', '%s at %s: get_code(include_prefix=False) %s' % (n.type, n.start_pos, _first_diff(got, text[vs:e]))))
            break
    return out


# --------------------------------------------------------------------- C02
def check_shape(root):
    out = []
    if root.type != 'file_input':
        out.append(('root_type', 'root is %s' % root.type))
    if root.parent is not None:
        out.append(('root_parent', 'root has a parent'))
    ch = getattr(root, 'children', None)
    if not ch or ch[-1].type != 'endmarker':
        out.append(('no_endmarker', 'last child of the module is %r' % (ch[-1] if ch else None,)))
    n_end = 0
    for n in walk(root):
        c = getattr(n, 'children', None)
        if c is None:
            if not isinstance(n.value, str) or not isinstance(n.prefix, str):
                out.append(('leaf_not_str', '%r' % (n,)))
                break
            if n.type == 'endmarker':
                n_end += 1
        elif len(c) == 0:
            out.append(('empty_node', '%s at %s has no children' % (n.type, getattr(n, 'start_pos', '?'))))
            break
    if n_end != 1:
        out.append(('endmarker_count', '%d end markers' % n_end))
    return out


# --------------------------------------------------------------------- C03
def check_positions(root, text, split_lines=None):
    out = []
    ls = leaves(root)
    pos = (1, 0)
    off = 0
    last_virtual = None
    prev_real_end = (1, 0)
    info = {'virtual': 0, 'multiline': 0, 'virtual_not_at_next': 0}
    for i, l in enumerate(ls):
        if is_virtual(l):
            info['virtual'] += 1
            if l.value != '' or l.prefix != '':
                out.append(('virtual_nonempty', '%s leaf with text %r/%r' % (l.token_type, l.prefix, l.value)))
            if l.start_pos != l.end_pos:
                out.append(('virtual_width', '%s leaf %s..%s' % (l.token_type, l.start_pos, l.end_pos)))
            if l.start_pos < pos:
                out.append(('virtual_before_walker', '%s leaf at %s, text walker already at %s' % (l.token_type, l.start_pos, pos)))
            if last_virtual is not None and l.start_pos < last_virtual:
                out.append(('virtual_order', 'virtual leaves go backwards %s -> %s' % (last_virtual, l.start_pos)))
            last_virtual = l.start_pos
            if out:
                return out, info
            continue
        p = l.prefix
        pp = p[1:] if off == 0 and p.startswith(BOM) else p
        pstart = pos
        pos = adv(pos, pp)
        off += len(p)
        if l.start_pos != pos:
            out.append(('start_pos', '%s %r: start_pos %s, true position %s' % (l.type, l.value[:20], l.start_pos, pos)))
            return out, info
        if last_virtual is not None:
            if last_virtual > pos:
                out.append(('virtual_after_next', 'virtual leaf at %s lies after the next real leaf at %s' % (last_virtual, pos)))
                return out, info
            if last_virtual != pos:
                info['virtual_not_at_next'] += 1
        # prefix start = end of the previous real leaf (zero-width indentation leaves hold no text)
        try:
            gp = l.get_start_pos_of_prefix()
        except Exception as e:
            gp = 'raised %r' % (e,)
        if gp != pstart:
            out.append(('prefix_start', '%s %r: get_start_pos_of_prefix() %s, previous leaf ends at %s' % (l.type, l.value[:20], gp, pstart)))
            return out, info
        last_virtual = None
        v = l.value
        if off == 0 and v.startswith(BOM):
            v = v[1:]
        npos = adv(pos, v)
        if npos[0] != pos[0] and l.type != 'newline':
            info['multiline'] += 1
        if l.end_pos != npos:
            out.append(('end_pos', '%s %r: end_pos %s, true end %s' % (l.type, l.value[:20], l.end_pos, npos)))
            return out, info
        pos = npos
        off += len(l.value)
        prev_real_end = pos
    # nodes start/end where their first/last leaf does
    for n in walk(root):
        ch = getattr(n, 'children', None)
        if not ch:
            continue
        f = n
        while getattr(f, 'children', None):
            f = f.children[0]
        la = n
        while getattr(la, 'children', None):
            la = la.children[-1]
        if hasattr(f, 'children') or hasattr(la, 'children'):
            continue
        if n.start_pos != f.start_pos:
            out.append(('node_start', '%s starts %s, its first leaf %s' % (n.type, n.start_pos, f.start_pos)))
            break
        if n.end_pos != la.end_pos:
            out.append(('node_end', '%s ends %s, its last leaf %s' % (n.type, n.end_pos, la.end_pos)))
            break
    if root.end_pos != pos:
        out.append(('module_end', 'module.end_pos %s, end of text %s' % (root.end_pos, pos)))
    t = text[1:] if text.startswith(BOM) else text
    nl = len(ref_split_lines(t))
    if root.end_pos[0] != nl:
        out.append(('module_lines', 'module ends on line %d, text has %d lines' % (root.end_pos[0], nl)))
    if split_lines is not None:
        k = len(split_lines(text))
        if k != root.end_pos[0]:
            out.append(('split_lines_count', 'split_lines gives %d lines, tree ends on line %d' % (k, root.end_pos[0])))
    return out, info


# --------------------------------------------------------------------- C11
def expected_leaf(L, pos, include_prefixes):
    exp = next((l for l in L if l.end_pos >= pos), None)
    if exp is not None and not include_prefixes and pos < exp.start_pos:
        exp = None
    return exp


def random_order_navigation(root, L, idx, rng, n_ops=120):
    """navigation answers must not depend on what was asked before: random (node, operation) queries, plus the end-to-end
    jumps over long child lists (first child's next, then last child's next, ...), each compared with the plain walk"""
    nodes = list(walk(root))
    where = {}
    for x in nodes:
        for i, c in enumerate(getattr(x, 'children', None) or ()):
            where[id(c)] = (x, i)

    def first(n):
        while getattr(n, 'children', None):
            n = n.children[0]
        return n

    def last(n):
        while getattr(n, 'children', None):
            n = n.children[-1]
        return n

    def want(n, op):
        if op in ('get_next_sibling', 'get_previous_sibling'):
            if id(n) not in where:
                return None
            par, i = where[id(n)]
            j = i + (1 if op == 'get_next_sibling' else -1)
            return par.children[j] if 0 <= j < len(par.children) else None
        if op == 'get_next_leaf':
            k = idx.get(id(last(n)))
            return L[k + 1] if k is not None and k + 1 < len(L) else None
        if op == 'get_previous_leaf':
            k = idx.get(id(first(n)))
            return L[k - 1] if k is not None and k > 0 else None
        if op == 'get_first_leaf':
            return first(n)
        return last(n)
    ops = ['get_next_sibling', 'get_previous_sibling', 'get_next_leaf', 'get_previous_leaf', 'get_first_leaf', 'get_last_leaf']
    plan = []
    longs = [x for x in nodes if len(getattr(x, 'children', None) or ()) >= 8]
    for x in (rng.sample(longs, 3) if len(longs) > 3 else longs):
        ch = x.children
        plan += [(ch[0], 'get_next_sibling'), (ch[-1], 'get_next_sibling'), (ch[-1], 'get_previous_sibling'), (ch[0], 'get_previous_sibling'),
                 (ch[1], 'get_previous_sibling'), (ch[-1], 'get_next_sibling'), (ch[len(ch) // 2], 'get_next_sibling'), (ch[0], 'get_previous_sibling')]
    for _ in range(n_ops):
        plan.append((rng.choice(nodes), rng.choice(ops)))
    rng.shuffle(plan) if rng.random() < .5 else None
    done = 0
    for n, op in plan:
        try:
            got = getattr(n, op)()
        except Exception as e:
            return ('nav_raise', '%s raised %r on %r' % (op, e, n)), done
        w = want(n, op)
        if got is not w:
            return ('random_order_' + op, '%s of %r (asked in random order, query %d) is %r, the walk says %r' % (op, n, done, got, w)), done
        done += 1
    return None, done


def check_navigation(root, text, rng, all_positions=True, max_positions=400):
    out = []
    info = {'positions': 0, 'zero_width': 0, 'repeated_siblings': 0}
    L = leaves(root)
    idx = {id(l): i for i, l in enumerate(L)}
    if len(idx) != len(L):
        out.append(('leaf_twice', 'a leaf object occurs twice in the tree'))
        return out, info
    bad, done = random_order_navigation(root, L, idx, rng)
    info['random_order_queries'] = done
    if bad:
        out.append(bad)
        return out, info
    for i, l in enumerate(L):
        if l.start_pos == l.end_pos and l.type != 'endmarker':
            info['zero_width'] += 1
        try:
            nx, pv = l.get_next_leaf(), l.get_previous_leaf()
        except Exception as e:
            out.append(('nav_raise', 'get_next/previous_leaf raised %r on %r' % (e, l)))
            return out, info
        if nx is not (L[i + 1] if i + 1 < len(L) else None):
            out.append(('next_leaf', 'get_next_leaf of %r is %r, expected %r' % (l, nx, L[i + 1] if i + 1 < len(L) else None)))
            break
        if pv is not (L[i - 1] if i > 0 else None):
            out.append(('previous_leaf', 'get_previous_leaf of %r is %r' % (l, pv)))
            break
        if l.get_root_node() is not root:
            out.append(('root_node', 'get_root_node of %r is not the root' % (l,)))
            break
        if l.get_first_leaf() is not l or l.get_last_leaf() is not l:
            out.append(('leaf_first_last', 'leaf is not its own first/last leaf'))
            break
    for x in walk(root):
        ch = getattr(x, 'children', None)
        if ch is None:
            continue
        vals = [getattr(c, 'value', None) for c in ch]
        if len(set(v for v in vals if v is not None)) < sum(1 for v in vals if v is not None):
            info['repeated_siblings'] += 1
        for i, c in enumerate(ch):
            if c.parent is not x:
                out.append(('parent', 'child %r of %s has parent %r' % (c, x.type, c.parent)))
                return out, info
            try:
                ns, ps = c.get_next_sibling(), c.get_previous_sibling()
            except Exception as e:
                out.append(('nav_raise', 'sibling navigation raised %r on %r' % (e, c)))
                return out, info
            if ns is not (ch[i + 1] if i + 1 < len(ch) else None):
                out.append(('next_sibling', 'get_next_sibling of child %d (%r) of %s is %r' % (i, c, x.type, ns)))
                return out, info
            if ps is not (ch[i - 1] if i > 0 else None):
                out.append(('previous_sibling', 'get_previous_sibling of child %d (%r) of %s is %r' % (i, c, x.type, ps)))
                return out, info
        if ch:
            f = x
            while getattr(f, 'children', None):
                f = f.children[0]
            la = x
            while getattr(la, 'children', None):
                la = la.children[-1]
            if x.get_first_leaf() is not f or x.get_last_leaf() is not la:
                out.append(('first_last_leaf', '%s: get_first/last_leaf disagree with children' % x.type))
                return out, info
            if x.get_root_node() is not root:
                out.append(('root_node', 'get_root_node of %s is not the root' % x.type))
                return out, info
            # a node's next/previous leaf are the neighbours of its last/first leaf in leaf order (None at the ends, and for the root)
            try:
                nx, pv = x.get_next_leaf(), x.get_previous_leaf()
            except Exception as e:
                out.append(('nav_raise', 'get_next/previous_leaf raised %r on node %s' % (e, x.type)))
                return out, info
            wn = L[idx[id(la)] + 1] if idx[id(la)] + 1 < len(L) else None
            wp = L[idx[id(f)] - 1] if idx[id(f)] > 0 else None
            if nx is not wn or pv is not wp:
                out.append(('node_next_previous_leaf', '%s at %s: get_next_leaf %r (expected %r), get_previous_leaf %r (expected %r)' % (
                    x.type, x.start_pos, nx, wn, pv, wp)))
                return out, info
            info['node_leaf_navigations'] = info.get('node_leaf_navigations', 0) + 1
            if x.get_start_pos_of_prefix() != f.get_start_pos_of_prefix():
                out.append(('node_prefix_start', '%s: get_start_pos_of_prefix differs from its first leaf' % x.type))
                return out, info
    try:
        r4 = (root.get_next_sibling(), root.get_previous_sibling(), root.get_next_leaf(), root.get_previous_leaf())
    except Exception as e:
        out.append(('nav_raise', 'navigation from the root raised %r' % (e,)))
        return out, info
    if any(r is not None for r in r4):
        out.append(('root_navigation', 'the root has a sibling or a neighbouring leaf: %r' % (r4,)))
        return out, info
    # search_ancestor = nearest ancestor of that type
    sample = L if len(L) <= 60 else rng.sample(L, 60)
    for l in sample:
        anc = []
        a = l.parent
        while a is not None:
            anc.append(a)
            a = a.parent
        types = {a.type for a in anc}
        for t in list(types)[:4] + ['no_such_type']:
            want = next((a for a in anc if a.type == t), None)
            got = l.search_ancestor(t)
            if got is not want:
                out.append(('search_ancestor', 'search_ancestor(%r) from %r gave %r, nearest is %r' % (t, l, got, want)))
                return out, info
        if len(types) >= 2:
            t2 = tuple(sorted(types))[:2]
            want = next((a for a in anc if a.type in t2), None)
            if l.search_ancestor(*t2) is not want:
                out.append(('search_ancestor', 'search_ancestor%r from %r is not the nearest' % (t2, l)))
                return out, info
    # position lookup
    lines = ref_split_lines(text[1:] if text.startswith(BOM) else text)
    end = root.end_pos
    positions = [(ln, col) for ln in range(1, len(lines) + 1) for col in range(len(lines[ln - 1]) + 1)]
    positions = [p for p in positions if p <= end]
    if not all_positions and len(positions) > max_positions:
        positions = rng.sample(positions, max_positions)
    starts = L
    import bisect
    ends = [l.end_pos for l in L]
    mono = all(ends[i] <= ends[i + 1] for i in range(len(ends) - 1))
    for pos in positions:
        info['positions'] += 1
        if mono:
            j = bisect.bisect_left(ends, pos)
            exp = L[j] if j < len(L) else None
        else:
            exp = next((l for l in L if l.end_pos >= pos), None)
        for inc in (True, False):
            e2 = exp
            if e2 is not None and not inc and pos < e2.start_pos:
                e2 = None
            try:
                got = root.get_leaf_for_position(pos, include_prefixes=inc)
            except Exception as e:
                out.append(('lookup_raise', 'get_leaf_for_position(%s, include_prefixes=%s) raised %r' % (pos, inc, e)))
                return out, info
            if got is not e2:
                out.append(('lookup', 'get_leaf_for_position(%s, include_prefixes=%s) -> %r, expected %r' % (pos, inc, got, e2)))
                return out, info
    for pos in [(0, 0), (0, 5), (end[0] + 1, 0), (end[0], end[1] + 1)]:
        try:
            got = root.get_leaf_for_position(pos)
        except ValueError:
            continue
        except Exception as e:
            out.append(('outside_raise', 'position %s outside the file raised %r, not ValueError' % (pos, e)))
            break
        out.append(('outside_accepted', 'position %s outside the file (end %s) returned %r' % (pos, end, got)))
        break
    return out, info
