"""Client of the CPython reference servers (one persistent subprocess per interpreter)."""
import json
import os
import select
import subprocess

from ..gen.text import interpreter

_SERVER = os.path.join(os.path.dirname(os.path.abspath(__file__)), 'ref_server.py')


class RefServer:
    def __init__(self, version):
        self.version = version
        self.exe = interpreter(version)
        self.p = None
        self.restarts = 0

    def available(self):
        return self.exe is not None

    def _start(self):
        env = {'PYTHONIOENCODING': 'utf-8', 'PYTHONHASHSEED': '0', 'PATH': '/usr/bin:/bin', 'PYTHONDONTWRITEBYTECODE': '1'}
        self.p = subprocess.Popen([self.exe, '-S', '-E', _SERVER], stdin=subprocess.PIPE, stdout=subprocess.PIPE,
                                  stderr=subprocess.DEVNULL, env=env)

    def ask(self, req, timeout=60):
        """-> dict, or None if the interpreter died / hung on this request (never a verdict)"""
        if self.p is None or self.p.poll() is not None:
            self._start()
        try:
            self.p.stdin.write((json.dumps(req) + '\n').encode('utf-8'))
            self.p.stdin.flush()
            r, _, _ = select.select([self.p.stdout], [], [], timeout)
            if not r:
                raise TimeoutError
            line = self.p.stdout.readline()
            if not line:
                raise EOFError
            return json.loads(line.decode('utf-8'))
        except Exception:
            try:
                self.p.kill()
            except Exception:
                pass
            self.p = None
            self.restarts += 1
            return None

    def close(self):
        if self.p is not None:
            try:
                self.p.stdin.close()
                self.p.wait(timeout=5)
            except Exception:
                self.p.kill()
            self.p = None
