"""Small independent oracles: position walker, iterative tree walks, tree signature,
nesting estimator.  Nothing here calls parso helpers except attribute reads."""
import re

BOM = '﻿'
VIRTUAL = ('INDENT', 'DEDENT', 'ERROR_DEDENT')


def adv(pos, s):
    """advance (line, col) over s counting only \\n, \\r\\n, \\r as line breaks"""
    line, col = pos
    k, n = 0, len(s)
    while k < n:
        c = s[k]
        if c == '\r':
            if k + 1 < n and s[k + 1] == '\n':
                k += 1
            line += 1
            col = 0
        elif c == '\n':
            line += 1
            col = 0
        else:
            col += 1
        k += 1
    return line, col


def ref_split_lines(s, keepends=False):
    out, i, n, st = [], 0, len(s), 0
    while i < n:
        c = s[i]
        if c == '\n' or c == '\r':
            e = i
            if c == '\r' and i + 1 < n and s[i + 1] == '\n':
                i += 1
            out.append(s[st:i + 1] if keepends else s[st:e])
            st = i + 1
        i += 1
    out.append(s[st:])
    return out


def is_leaf(n):
    return not hasattr(n, 'children')


def leaves(root):
    out, st = [], [root]
    while st:
        x = st.pop()
        ch = getattr(x, 'children', None)
        if ch is None:
            out.append(x)
        else:
            st.extend(reversed(ch))
    return out


def walk(root):
    """pre-order, iterative"""
    st = [root]
    while st:
        x = st.pop()
        yield x
        ch = getattr(x, 'children', None)
        if ch:
            st.extend(reversed(ch))


def is_virtual(leaf):
    return leaf.type == 'error_leaf' and leaf.token_type in VIRTUAL


def has_error(root):
    for n in walk(root):
        if n.type in ('error_node', 'error_leaf'):
            return True
    return False


def tree_sig(root, with_pos=True):
    """(class, type, value, prefix, start, end, token_type) per node in pre-order, plus
    child counts: equal signatures <=> same tree as far as any property is concerned"""
    out = []
    st = [root]
    while st:
        x = st.pop()
        ch = getattr(x, 'children', None)
        if ch is None:
            t = (type(x).__name__, x.type, x.value, x.prefix,
                 x.start_pos if with_pos else None, x.end_pos if with_pos else None,
                 getattr(x, 'token_type', None) if x.type == 'error_leaf' else None)
            out.append(t)
        else:
            out.append((type(x).__name__, x.type, len(ch)))
            st.extend(reversed(ch))
    return out


def sig_diff(a, b):
    """first differing entry of two signatures, for messages"""
    for i, (x, y) in enumerate(zip(a, b)):
        if x != y:
            return 'entry %d: %r != %r' % (i, x, y)
    if len(a) != len(b):
        return 'length %d != %d (tail %r / %r)' % (len(a), len(b), a[len(b):len(b) + 2], b[len(a):len(a) + 2])
    return None


def parents_ok(root):
    """every child's parent is the node that lists it; root has none"""
    if root.parent is not None:
        return 'root has a parent'
    for n in walk(root):
        for c in getattr(n, 'children', ()) or ():
            if c.parent is not n:
                return 'child %r of %r has parent %r' % (c, n, c.parent)
    return None


_OPEN = '([{'
_CLOSE = ')]}'
_RR = re.compile(r'\b(not|lambda|else|await|if|for)\b|[-+~]|\*\*|[([{]|[)\]}]|\n([ \t]*)')


def nesting_estimate(text):
    """Upper-ish estimate of syntactic nesting: open brackets + indentation levels +
    run of right-recursive prefix tokens.  Only ever used to *excuse* a RecursionError."""
    depth = best = 0
    indents = [0]
    run = 0
    for m in _RR.finditer(text):
        t = m.group(0)
        if t[0] == '\n':
            w = len(m.group(2).expandtabs(8))
            if depth == 0:
                while indents and w < indents[-1]:
                    indents.pop()
                if not indents or w > indents[-1]:
                    indents.append(w)
            run = 0
        elif t in _OPEN:
            depth += 1
            run = 0
        elif t in _CLOSE:
            depth = max(0, depth - 1)
            run = 0
        else:
            run += 1
        best = max(best, depth + len(indents) + run)
    # long operator chains (a.b.c..., a+b+c) are iterative in parso, not counted
    return best


def first_error_target(root):
    """C07/C13: the first error the recovering parser marks.  Every error leaf is an offending
    token; every error node was closed because the token that follows it could not be consumed.
    The first error is the earliest of these targets in document order ("the first error leaf,
    or the leaf that follows the first error node").  -> (kind, node, target_leaf) or None"""
    ls = leaves(root)
    idx = {id(l): i for i, l in enumerate(ls)}
    best = None
    for n in walk(root):
        if n.type == 'error_leaf':
            cand = (idx[id(n)], 'leaf', n)
        elif n.type == 'error_node':
            last = n
            while getattr(last, 'children', None):
                last = last.children[-1]
            if id(last) not in idx:
                continue
            cand = (idx[id(last)] + 1, 'node', n)
        else:
            continue
        if best is None or cand[0] < best[0]:
            best = cand
    if best is None:
        return None
    i, kind, n = best
    return kind, n, (ls[i] if i < len(ls) else None)
