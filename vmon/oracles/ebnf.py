"""Independent reader for pgen-style EBNF grammar text -> per-rule NFA (own construction).
Does not import parso."""
import re

_TOK = re.compile(r"""\s*(?:(\#[^\n]*)|([A-Za-z_][A-Za-z_0-9]*)|('(?:[^'\\]|\\.)*'|"(?:[^"\\]|\\.)*")|([()\[\]|*+:])|(\n))""")


def _lex(text):
    # returns list of (kind, value); NEWLINE only at bracket depth 0
    out = []
    depth = 0
    i = 0
    n = len(text)
    while i < n:
        c = text[i]
        if c in ' \t\r\f':
            i += 1
            continue
        if c == '#':
            while i < n and text[i] != '\n':
                i += 1
            continue
        if c == '\n':
            if depth == 0 and out and out[-1][0] != 'NEWLINE':
                out.append(('NEWLINE', '\n'))
            i += 1
            continue
        if c.isalpha() or c == '_':
            j = i
            while j < n and (text[j].isalnum() or text[j] == '_'):
                j += 1
            out.append(('NAME', text[i:j]))
            i = j
            continue
        if c in '\'"':
            j = i + 1
            while text[j] != c:
                j += 2 if text[j] == '\\' else 1
            out.append(('STRING', text[i:j + 1]))
            i = j + 1
            continue
        if c in '([':
            depth += 1
        elif c in ')]':
            depth -= 1
        if c in '()[]|*+:':
            out.append(('OP', c))
            i += 1
            continue
        raise ValueError('bad char %r at %d' % (c, i))
    if out and out[-1][0] != 'NEWLINE':
        out.append(('NEWLINE', '\n'))
    return out


# AST: ('sym', label) | ('seq', [..]) | ('alt', [..]) | ('opt', x) | ('star', x) | ('plus', x)
class _P:
    def __init__(self, toks):
        self.t = toks
        self.i = 0

    def peek(self):
        return self.t[self.i] if self.i < len(self.t) else ('EOF', '')

    def eat(self, kind=None, val=None):
        k, v = self.peek()
        if (kind and k != kind) or (val and v != val):
            raise ValueError('expected %s %s got %s %r at %d' % (kind, val, k, v, self.i))
        self.i += 1
        return v

    def grammar(self):
        rules = []
        while self.peek()[0] != 'EOF':
            if self.peek()[0] == 'NEWLINE':
                self.eat()
                continue
            name = self.eat('NAME')
            self.eat('OP', ':')
            rhs = self.rhs()
            self.eat('NEWLINE')
            rules.append((name, rhs))
        return rules

    def rhs(self):
        alts = [self.items()]
        while self.peek() == ('OP', '|'):
            self.eat()
            alts.append(self.items())
        return alts[0] if len(alts) == 1 else ('alt', alts)

    def items(self):
        its = [self.item()]
        while self.peek()[0] in ('NAME', 'STRING') or self.peek() in (('OP', '('), ('OP', '[')):
            its.append(self.item())
        return its[0] if len(its) == 1 else ('seq', its)

    def item(self):
        if self.peek() == ('OP', '['):
            self.eat()
            x = self.rhs()
            self.eat('OP', ']')
            return ('opt', x)
        if self.peek() == ('OP', '('):
            self.eat()
            x = self.rhs()
            self.eat('OP', ')')
        else:
            k, v = self.peek()
            if k not in ('NAME', 'STRING'):
                raise ValueError('unexpected %s %r' % (k, v))
            self.eat()
            x = ('sym', v)
        if self.peek() == ('OP', '*'):
            self.eat()
            return ('star', x)
        if self.peek() == ('OP', '+'):
            self.eat()
            return ('plus', x)
        return x


def read_grammar(text):
    """-> ordered dict rule -> AST"""
    rules = _P(_lex(text)).grammar()
    d = {}
    for n, r in rules:
        if n in d:
            raise ValueError('duplicate rule ' + n)
        d[n] = r
    return d


class NFA:
    """Own Thompson construction. states: int; eps: dict s->set; arcs: dict s->list[(label, t)]"""
    def __init__(self):
        self.eps = {}
        self.arcs = {}
        self.n = 0

    def new(self):
        s = self.n
        self.n += 1
        self.eps[s] = set()
        self.arcs[s] = []
        return s

    def build(self, ast):
        k = ast[0]
        if k == 'sym':
            a, z = self.new(), self.new()
            self.arcs[a].append((ast[1], z))
            return a, z
        if k == 'seq':
            a, z = self.build(ast[1][0])
            for x in ast[1][1:]:
                b, y = self.build(x)
                self.eps[z].add(b)
                z = y
            return a, z
        if k == 'alt':
            a, z = self.new(), self.new()
            for x in ast[1]:
                b, y = self.build(x)
                self.eps[a].add(b)
                self.eps[y].add(z)
            return a, z
        if k == 'opt':
            a, z = self.build(ast[1])
            aa, zz = self.new(), self.new()
            self.eps[aa].update((a, zz))
            self.eps[z].add(zz)
            return aa, zz
        if k in ('star', 'plus'):
            a, z = self.build(ast[1])
            aa, zz = self.new(), self.new()
            self.eps[aa].add(a)
            self.eps[z].update((a, zz))
            if k == 'star':
                self.eps[aa].add(zz)
            return aa, zz
        raise ValueError(k)

    def closure(self, states):
        st = list(states)
        seen = set(states)
        while st:
            s = st.pop()
            for t in self.eps[s]:
                if t not in seen:
                    seen.add(t)
                    st.append(t)
        return frozenset(seen)

    def step(self, S, label):
        return self.closure({t for s in S for (l, t) in self.arcs[s] if l == label})

    def labels(self, S):
        return {l for s in S for (l, t) in self.arcs[s]}


class Rule:
    def __init__(self, name, ast):
        self.name = name
        self.ast = ast
        self.nfa = NFA()
        a, z = self.nfa.build(ast)
        self.start = self.nfa.closure({a})
        self.final = z

    def is_final(self, S):
        return self.final in S


def load(text):
    asts = read_grammar(text)
    return {n: Rule(n, a) for n, a in asts.items()}
