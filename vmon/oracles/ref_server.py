# Reference-model server; runs under CPython 3.6 ... 3.13 (keep the syntax 3.6-compatible).
# JSON lines on stdin -> JSON lines on stdout.
import io
import json
import sys
import token
import tokenize
import warnings

warnings.simplefilter('ignore')
sys.setrecursionlimit(3000)


def do_tokenize(text):
    try:
        toks = [(token.tok_name[t.type], t.string, list(t.start), list(t.end))
                for t in tokenize.generate_tokens(io.StringIO(text).readline)]
        return toks, None
    except Exception as e:
        return None, repr(e)[:200]


def do_compile(text):
    try:
        compile(text, '<ref>', 'exec', dont_inherit=True)
        return True, None
    except RecursionError:
        return None, 'RecursionError'
    except MemoryError:
        return None, 'MemoryError'
    except Exception as e:
        return False, ('%s: %s' % (type(e).__name__, e))[:200]


def do_detect(data):
    try:
        enc, _ = tokenize.detect_encoding(io.BytesIO(data).readline)
    except Exception as e:
        return None, None, repr(e)[:200]
    try:
        return enc, data.decode(enc), None
    except Exception as e:
        return enc, None, repr(e)[:200]


def main():
    out = sys.stdout
    for line in sys.stdin:
        try:
            req = json.loads(line)
            op = req['op']
            res = {}
            if op == 'file':
                with open(req['path'], 'rb') as f:
                    data = f.read()
                enc, text, err = do_detect(data)
                res['text'] = text
                res['enc'] = enc
                if text is not None and text.startswith(u'﻿'):
                    text = text[1:]
                req['text'] = text
                op = req.get('then', 'both')
                if text is None:
                    op = None
            if op in ('tok', 'both'):
                res['toks'], res['tokerr'] = do_tokenize(req['text'])
            if op in ('compile', 'both'):
                res['compiles'], res['cerr'] = do_compile(req['text'])
            if op == 'detect':
                data = req['data'].encode('latin-1')
                res['enc'], res['text'], res['err'] = do_detect(data)
            if op == 'version':
                res['version'] = list(sys.version_info[:3])
        except Exception as e:
            res = {'fail': repr(e)[:300]}
        out.write(json.dumps(res) + '\n')
        out.flush()


main()
