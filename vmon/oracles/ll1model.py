"""Independent model of what the parser generator must produce (C08): per-rule language
(bisimulation against the subset construction of an own NFA) and per-state tables
(terminal arcs + FIRST of nonterminal arcs with the push chain).  Imports nothing from parso."""
import ast as pyast

from . import ebnf


class ModelVerdict(Exception):
    """the model itself says the grammar is not LL(1) / left recursive"""


def first_sets(rules, term):
    first = {}

    def FIRST(n, stack=()):
        if n in first:
            return first[n]
        if n in stack:
            raise ModelVerdict('left recursion through ' + n)
        out = {}
        r = rules[n]
        for lab in sorted(r.nfa.labels(r.start)):
            if lab in rules:
                for t, chain in FIRST(lab, stack + (n,)).items():
                    if t in out:
                        raise ModelVerdict('conflict in FIRST(%s) on %r' % (n, t))
                    out[t] = (lab,) + chain
            else:
                t = term(lab)
                if t in out:
                    raise ModelVerdict('conflict in FIRST(%s) on %r' % (n, t))
                out[t] = (lab,)
        first[n] = out
        return out
    return FIRST


def model_is_ll1(text, ns_has=lambda name: True):
    """-> None if the model accepts the grammar, else a reason string"""
    rules = ebnf.load(text)

    def term(label):
        if label[0].isalpha() or label[0] == '_':
            return ('tok', label)
        return ('kw', pyast.literal_eval(label))
    FIRST = first_sets(rules, term)
    try:
        for n in rules:
            FIRST(n)
        for name, r in rules.items():
            seen = {r.start}
            todo = [r.start]
            while todo:
                S = todo.pop()
                claimed = {}
                for lab in sorted(r.nfa.labels(S)):
                    toks = FIRST(lab) if lab in rules else {term(lab): ()}
                    for t in toks:
                        if t in claimed:
                            raise ModelVerdict('state of %s: token %r begins both %s and %s' % (name, t, claimed[t], lab))
                        claimed[t] = lab
                    T = r.nfa.step(S, lab)
                    if T not in seen:
                        seen.add(T)
                        todo.append(T)
    except ModelVerdict as e:
        return str(e)
    return None


def check_tables(text, ns, g, reserved_cls):
    """compare the live tables `g` with the model; -> (problems, stats)"""
    rules = ebnf.load(text)
    problems = []
    if list(g.nonterminal_to_dfas) != list(rules):
        problems.append(('rule_set', 'rule set/order differs: %r vs %r' % (list(g.nonterminal_to_dfas)[:5], list(rules)[:5])))
        return problems, {}
    if g.start_nonterminal != next(iter(rules)):
        problems.append(('start_symbol', '%r != %r' % (g.start_nonterminal, next(iter(rules)))))
    nstates = npairs = nplans = 0
    for name, dfas in g.nonterminal_to_dfas.items():
        r = rules[name]
        todo = [(dfas[0], r.start)]
        seen = {}
        while todo:
            d, S = todo.pop()
            if id(d) in seen:
                if S in seen[id(d)]:
                    continue
                seen[id(d)].add(S)
            else:
                seen[id(d)] = {S}
            npairs += 1
            if d.from_rule != name:
                problems.append(('from_rule', name))
            if d.is_final != r.is_final(S):
                problems.append(('finality', '%s: a state is %sfinal but the rule text says otherwise' % (name, '' if d.is_final else 'not ')))
            if set(d.arcs) != r.nfa.labels(S):
                problems.append(('arc_labels', '%s: arcs differ by %r' % (name, sorted(set(d.arcs) ^ r.nfa.labels(S)))))
                continue
            for lab, nd in d.arcs.items():
                if not any(nd is x for x in dfas):
                    problems.append(('arc_target', '%s: arc %r leaves the rule' % (name, lab)))
                todo.append((nd, r.nfa.step(S, lab)))
        if set(seen) != {id(d) for d in dfas}:
            problems.append(('unreachable_states', name))
        nstates += len(dfas)
    if problems:
        return problems, {'rules': len(rules), 'states': nstates, 'pairs': npairs, 'plans': 0}

    def term(label):
        if label[0].isalpha() or label[0] == '_':
            return getattr(ns, label)
        return ('kw', pyast.literal_eval(label))
    FIRST = first_sets(rules, term)
    try:
        for name, dfas in g.nonterminal_to_dfas.items():
            for d in dfas:
                exp = {}
                for lab, nd in d.arcs.items():
                    if lab in rules:
                        for t, chain in FIRST(lab).items():
                            if t in exp:
                                problems.append(('model_conflict_accepted', '%s: token %r claimed twice, yet a grammar was generated' % (name, t)))
                            exp[t] = (nd, (lab,) + chain)
                    else:
                        t = term(lab)
                        if t in exp:
                            problems.append(('model_conflict_accepted', '%s: token %r claimed twice, yet a grammar was generated' % (name, t)))
                        exp[t] = (nd, ())
                got = {}
                for tr, plan in d.transitions.items():
                    if isinstance(tr, reserved_cls):
                        k = ('kw', tr.value)
                        if g.reserved_syntax_strings.get(tr.value) is not tr:
                            problems.append(('reserved_identity', '%s: reserved string %r is not the unique object' % (name, tr.value)))
                    else:
                        k = tr
                    if k in got:
                        problems.append(('dup_transition', '%s: %r twice' % (name, k)))
                    got[k] = plan
                if set(got) != set(exp):
                    problems.append(('transition_keys', '%s: table keys differ from terminal arcs + FIRST sets by %r' % (
                        name, sorted(map(str, set(got) ^ set(exp)))[:6])))
                    continue
                for k, plan in got.items():
                    nplans += 1
                    nd, chain = exp[k]
                    if plan.next_dfa is not nd:
                        problems.append(('next_dfa', '%s on %r: next state is not the arc target' % (name, k)))
                        continue
                    if len(plan.dfa_pushes) != max(0, len(chain) - 1):
                        problems.append(('push_len', '%s on %r: %d pushes, chain %r' % (name, k, len(plan.dfa_pushes), chain)))
                        continue
                    for i, p in enumerate(plan.dfa_pushes):
                        want = g.nonterminal_to_dfas[chain[i]][0].arcs[chain[i + 1]]
                        if p is not want:
                            problems.append(('push_state', '%s on %r: push %d is not the successor of %s on %s' % (name, k, i, chain[i], chain[i + 1])))
    except ModelVerdict as e:
        problems.append(('model_conflict_accepted', 'model: %s, yet a grammar was generated' % e))
    return problems, {'rules': len(rules), 'states': nstates, 'pairs': npairs, 'plans': nplans}
