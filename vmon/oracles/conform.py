"""C05 prototype: check that every non-error node is a sentence of its rule (modulo conventions)."""
import sys, ast as pyast

from . import ebnf

TERMINAL_LEAF = {
    'NAME': 'name', 'NUMBER': 'number', 'STRING': 'string', 'NEWLINE': 'newline',
    'ENDMARKER': 'endmarker', 'FSTRING_START': 'fstring_start',
    'FSTRING_STRING': 'fstring_string', 'FSTRING_END': 'fstring_end',
}


class Virtual:
    """virtual child: INDENT / DEDENT / NEWLINE marker or a re-assembled list node"""
    def __init__(self, type, children=None):
        self.type = type
        self.children = children


class Checker:
    def __init__(self, grammar_text):
        self.rules = ebnf.load(grammar_text)
        self.single = {}
        for n, r in self.rules.items():
            self.single[n] = {l for l in r.nfa.labels(r.start) if r.is_final(r.nfa.step(r.start, l))}
        self._memo = {}
        self.missing_newline = []

    # -- does `child` stand for grammar symbol `label`?
    def fits(self, child, label):
        key = (id(child), label)
        if key in self._memo:
            return self._memo[key]
        self._memo[key] = False  # cycle guard
        res = self._fits(child, label)
        self._memo[key] = res
        return res

    def _fits(self, child, label):
        t = child.type
        if isinstance(child, Virtual) and child.children is None:
            return label == t
        if label[0] in '\'"':
            return t in ('keyword', 'operator') and child.value == pyast.literal_eval(label)
        if label in TERMINAL_LEAF:
            return t == TERMINAL_LEAF[label]
        if label in ('INDENT', 'DEDENT', 'ERRORTOKEN', 'ERROR_DEDENT', 'OP'):
            return False
        if label not in self.rules:
            return False
        # nonterminal
        if t in ('error_node', 'error_leaf'):
            return label in ('stmt', 'suite')
        if label == 'simple_stmt' and t != 'simple_stmt':
            # collapsed simple_stmt that lacks its NEWLINE (only legal at end of file)
            if self.match('simple_stmt', [child, Virtual('NEWLINE')]):
                self.missing_newline.append(child)
                return True
            return False
        if t == label or (label == 'lambdef_nocond' and t == 'lambdef'):
            return hasattr(child, 'children')
        return any(self.fits(child, l2) for l2 in self.single[label])

    def match(self, rule, seq):
        r = self.rules[rule]
        S = r.start
        for c in seq:
            nxt = set()
            if c.type in ('error_node', 'error_leaf') and rule in ('suite', 'file_input'):
                nxt |= S  # error children are transparent among statements
            for l in r.nfa.labels(S):
                if self.fits(c, l):
                    nxt |= r.nfa.step(S, l)
            if not nxt:
                return False
            S = frozenset(nxt)
        return r.is_final(S)

    def flatten_params(self, plist):
        out = []
        for p in plist:
            if p.type == 'param':
                out.extend(p.children)
            else:
                out.append(p)
        return out

    @staticmethod
    def check_param(ch):
        """the documented grouping: ['*' | '**'] (name | tfpdef) ['=' default] [','] - one parameter, nothing else"""
        def op(c, *values):
            return c.type == 'operator' and c.value in values
        i = 0
        if ch and op(ch[0], '*', '**'):
            i = 1
        if i >= len(ch) or ch[i].type not in ('name', 'tfpdef'):
            return 'param node without a name: ' + ' '.join(getattr(c, 'value', None) or c.type for c in ch)[:80]
        i += 1
        if i < len(ch) and op(ch[i], '='):
            if i + 1 >= len(ch) or op(ch[i + 1], ','):
                return 'param node with = but no default'
            i += 2
        if i < len(ch) and op(ch[i], ','):
            i += 1
        if i != len(ch):
            return 'param node holds more than one parameter: ' + ' '.join(getattr(c, 'value', None) or c.type for c in ch)[:80]
        return None

    def params_grouped(self, plist):
        """outside param nodes only the separators remain: ',', the bare '*' and '/'"""
        for p in plist:
            if p.type != 'param' and not (p.type == 'operator' and p.value in (',', '*', '/')):
                return 'parameter not grouped into a param node: ' + (getattr(p, 'value', None) or p.type)
        return None

    def check_node(self, node):
        """returns None if ok, else a reason string"""
        t = node.type
        ch = list(node.children)
        if t in ('error_node',):
            return None
        if t == 'param':
            if node.parent is None or node.parent.type not in ('parameters', 'lambdef'):
                return 'param outside parameters'
            return self.check_param(ch)
        if len(ch) == 0:
            return 'empty node'
        if t != 'file_input' and len(ch) == 1:
            return 'single-child node not collapsed'
        rule_names = [t]
        if t == 'lambdef' and 'lambdef_nocond' in self.rules:
            rule_names.append('lambdef_nocond')
        if t not in self.rules:
            return 'unknown node type ' + t
        if t == 'suite' and ch[0].type == 'newline':
            ch = [ch[0], Virtual('INDENT')] + ch[1:] + [Virtual('DEDENT')]
        if t == 'parameters':
            # the grouping is done when the funcdef node is built; a parameter list stranded in an error node keeps the raw form
            bad = self.params_grouped(ch[1:-1]) if node.parent is not None and node.parent.type == 'funcdef' else None
            if bad:
                return bad
            inner = self.flatten_params(ch[1:-1])
            if inner:
                lst = 'typedargslist'
                v = Virtual(lst, inner) if len(inner) > 1 else inner[0]
                if len(inner) > 1 and not self.match(lst, inner):
                    return 'params do not form ' + lst
                ch = [ch[0], v, ch[-1]]
        if t == 'lambdef':
            bad = self.params_grouped(ch[1:-2])
            if bad:
                return bad
            inner = self.flatten_params(ch[1:-2])
            if inner:
                lst = 'varargslist'
                v = Virtual(lst, inner) if len(inner) > 1 else inner[0]
                if len(inner) > 1 and not self.match(lst, inner):
                    return 'params do not form ' + lst
                ch = [ch[0], v] + ch[-2:]
        for rn in rule_names:
            if self.match(rn, ch):
                return None
        if t == 'simple_stmt' and self.match(t, ch + [Virtual('NEWLINE')]):
            self.missing_newline.append(node)
            return None
        return 'children not in language of ' + t + ': ' + ' '.join(getattr(c, 'value', None) or c.type for c in ch)[:120]


def walk(root):
    st = [root]
    while st:
        n = st.pop()
        yield n
        st.extend(getattr(n, 'children', ()) or ())
