"""The read-only surface of a parso tree: every public accessor (with its option variants) that a client may call between
parsing a tree and using it.  None of them may change the tree; the callers compare a signature taken before and after.
Exceptions are not judged here (C13/C14/C20 judge the helpers themselves); the number of calls made is returned."""


def exercise(m, g=None, max_nodes=4000):
    calls = 0
    st = [m]
    seen = 0
    while st and seen < max_nodes:
        n = st.pop()
        seen += 1
        ch = getattr(n, 'children', None)
        if ch:
            st.extend(reversed(ch))
        for f in _COMMON:
            try:
                f(n)
                calls += 1
            except Exception:
                pass
        for f in _BY_TYPE.get(n.type, ()):
            try:
                f(n)
                calls += 1
            except Exception:
                pass
    for f in _MODULE:
        try:
            f(m)
            calls += 1
        except Exception:
            pass
    if g is not None:
        try:
            list(g.iter_errors(m))
            calls += 1
        except Exception:
            pass
    return calls


_COMMON = [
    lambda n: n.get_code(), lambda n: n.get_code(include_prefix=False), lambda n: (n.start_pos, n.end_pos),
    lambda n: n.get_first_leaf(), lambda n: n.get_last_leaf(), lambda n: n.get_start_pos_of_prefix(),
    lambda n: n.get_next_sibling(), lambda n: n.get_previous_sibling(), lambda n: n.get_next_leaf(), lambda n: n.get_previous_leaf(),
    lambda n: n.get_root_node(), lambda n: n.search_ancestor('funcdef', 'classdef'), lambda n: repr(n),
]


def _param(p):
    p.get_code(include_comma=False)
    p.get_code(include_prefix=False, include_comma=False)
    p.get_code(include_comma=True)
    return p.name, p.default, p.annotation, p.star_count, p.position_index, p.get_parent_function()


def _func(f):
    f.get_params()
    list(f.iter_yield_exprs())
    list(f.iter_return_stmts())
    list(f.iter_raise_stmts())
    f.is_generator()
    list(f.iter_funcdefs()), list(f.iter_classdefs()), list(f.iter_imports())
    return f.annotation, f.name, f.get_decorators(), f.get_doc_node()


def _class(c):
    return c.get_super_arglist(), c.get_decorators(), c.get_doc_node(), c.name, list(c.iter_funcdefs())


def _import(i):
    return i.get_paths(), i.get_defined_names(), i.get_defined_names(include_setitem=True), i.level, i.is_star_import(), i.is_nested(), i.get_path_for_name


def _name(n):
    n.is_definition()
    n.is_definition(include_setitem=True)
    n.get_definition()
    n.get_definition(import_name_always=True, include_setitem=True)


def _expr_stmt(e):
    e.get_defined_names()
    e.get_defined_names(include_setitem=True)
    e.get_rhs()
    list(e.yield_operators())
    e.get_doc_node()


def _leaf(l):
    list(l._split_prefix())
    return l.prefix, l.value, l.line, l.column


_BY_TYPE = {
    'param': [_param], 'funcdef': [_func], 'lambdef': [lambda f: (f.get_params(), list(f.iter_yield_exprs()), f.is_generator())],
    'classdef': [_class], 'import_from': [_import], 'import_name': [_import], 'name': [_name, _leaf], 'expr_stmt': [_expr_stmt],
    'if_stmt': [lambda s: list(s.get_test_nodes())], 'try_stmt': [lambda s: list(s.get_except_clause_tests())],
    'with_stmt': [lambda s: s.get_defined_names(), lambda s: s.get_defined_names(include_setitem=True)],
    'for_stmt': [lambda s: s.get_defined_names(), lambda s: s.get_testlist()], 'while_stmt': [lambda s: s.children],
    'sync_comp_for': [lambda s: s.get_defined_names()], 'comp_for': [lambda s: s.get_defined_names()],
    'namedexpr_test': [lambda s: s.get_defined_names()], 'global_stmt': [lambda s: s.get_global_names()],
    'nonlocal_stmt': [lambda s: s.get_defined_names()], 'del_stmt': [lambda s: s.get_defined_names()],
    'string': [lambda s: (s.string_prefix, s._get_payload()), _leaf], 'number': [_leaf], 'operator': [_leaf], 'keyword': [_leaf],
    'newline': [_leaf], 'endmarker': [_leaf], 'fstring_string': [_leaf], 'fstring_start': [_leaf], 'fstring_end': [_leaf],
    'error_leaf': [_leaf, lambda l: l.token_type], 'decorator': [lambda d: d.children], 'return_stmt': [lambda s: s.get_code()],
}

_MODULE = [
    lambda m: m.get_used_names(), lambda m: list(m.iter_future_import_names()), lambda m: list(m.iter_funcdefs()),
    lambda m: list(m.iter_classdefs()), lambda m: list(m.iter_imports()), lambda m: m.get_doc_node(),
    lambda m: m.get_leaf_for_position((1, 0)), lambda m: m.get_leaf_for_position(m.end_pos, include_prefixes=True),
    lambda m: m.get_name_of_position((1, 0)), lambda m: m.dump(indent=None)[:10] if len(m.get_code()) < 20000 else None,
]
