"""Shared harness: import guard, sharded execution, collectors, verdicts, evidence.

Every check is   ./check <ID> --tier quick|thorough   ->  vmon.run.main().
A property driver (vmon/props/cXX.py) provides

    ID, LEVEL, RULE, ASSUMPTIONS
    shards(tier, seed)      -> list of JSON-serialisable shard specs
    run_shard(spec, ctx)    -> drives the real code under the monitors, reports into ctx
    replay(witness, ctx)    -> re-judges one recorded witness      (optional)
    floors(tier)            -> {counter name: minimum} else INCONCLUSIVE (optional)

The driver never decides the exit code; it only records observations.
"""
import collections
import hashlib
import json
import os
import subprocess
import sys
import time
import traceback
from concurrent.futures import ThreadPoolExecutor

VERIF = os.path.dirname(os.path.dirname(os.path.abspath(__file__)))
REPO = os.environ.get('PARSO_SRC', '/repo')
PY = os.environ.get('VERIF_PY', '/venv/bin/python')
DEPS = os.path.join(VERIF, '.deps')
WORK = os.path.join(VERIF, '.work')
NCPU = int(os.environ.get('VERIF_JOBS', '0')) or min(16, os.cpu_count() or 4)
VERSIONS = ['3.6', '3.7', '3.8', '3.9', '3.10', '3.11', '3.12', '3.13', '3.14']
MAX_VIOL_PER_KIND = 12


def import_parso():
    """Import parso from the working tree under test and prove that we did."""
    if sys.path[0] != REPO:
        sys.path.insert(0, REPO)
    import parso
    here = os.path.realpath(parso.__file__)
    if not here.startswith(os.path.realpath(REPO) + os.sep):
        raise RuntimeError('parso imported from %s, not from %s' % (here, REPO))
    return parso


def ensure_deps():
    """icontract lives in the git-ignored .deps; (re)install from the offline wheelhouse."""
    if not os.path.isdir(os.path.join(DEPS, 'icontract')):
        try:
            subprocess.run([PY, '-m', 'pip', 'install', '-q', '--no-index', '--find-links',
                            '/opt/veriftools/wheels', '--target', DEPS, 'icontract'],
                           stdout=subprocess.DEVNULL, stderr=subprocess.DEVNULL, timeout=300)
        except Exception:
            pass
    if DEPS not in sys.path:
        sys.path.append(DEPS)


def h64(s):
    if isinstance(s, str):
        s = s.encode('utf-8', 'surrogatepass')
    return int.from_bytes(hashlib.blake2b(s, digest_size=8).digest(), 'big')


def jsonable(x):
    if isinstance(x, (str, int, float, bool)) or x is None:
        return x
    if isinstance(x, bytes):
        return {'__bytes__': x.decode('latin-1')}
    if isinstance(x, (list, tuple)):
        return [jsonable(i) for i in x]
    if isinstance(x, (set, frozenset)):
        return sorted((jsonable(i) for i in x), key=repr)
    if isinstance(x, dict):
        return {str(k): jsonable(v) for k, v in x.items()}
    return repr(x)


def unjson(x):
    if isinstance(x, dict):
        if set(x) == {'__bytes__'}:
            return x['__bytes__'].encode('latin-1')
        return {k: unjson(v) for k, v in x.items()}
    if isinstance(x, list):
        return [unjson(i) for i in x]
    return x


def _sorted_any(values):
    """observed values are whatever the code under test produced: never let their types break the report"""
    try:
        return sorted(values)
    except TypeError:
        return sorted(values, key=lambda x: (type(x).__name__, repr(x)))


class Ctx:
    """Per-shard collector of what the monitors observed."""

    def __init__(self, pid, spec=None):
        self.pid = pid
        self.spec = spec or {}
        self.counters = collections.Counter()
        self.nontrivial = set()
        self.violations = []
        self._vk = collections.Counter()
        self.known = collections.Counter()
        self.known_ex = {}
        self.samples = []
        self.sets = collections.defaultdict(set)
        self.t0 = time.time()
        self.budget_s = float(self.spec.get('budget_s', 1e9))

    # -- bookkeeping --------------------------------------------------
    def count(self, name, n=1):
        self.counters[name] += n

    def nontriv(self, key):
        self.nontrivial.add(h64(key))

    def observe(self, name, item):
        """distinct things seen (node types, branches, fault points...)"""
        s = self.sets[name]
        if len(s) < 20000:
            s.add(item if isinstance(item, (str, int)) else repr(item))

    def sample(self, x, cap=6):
        if len(self.samples) < cap:
            self.samples.append(jsonable(x))

    def out_of_time(self):
        return time.time() - self.t0 > self.budget_s

    # -- verdict material --------------------------------------------
    def violation(self, kind, msg, witness, **detail):
        """A monitor saw the property refuted.  `kind` names the mechanism of the
        *monitor* (what was compared); known-finding classifiers look at kind, msg,
        witness and detail."""
        from . import known
        v = {'property': self.pid, 'kind': kind, 'msg': str(msg)[:600],
             'witness': jsonable(witness), 'detail': jsonable(detail)}
        fid = known.classify(v)
        if fid is not None:
            self.known[fid] += 1
            ex = self.known_ex.get(fid)
            if ex is None or len(json.dumps(v['witness'])) < len(json.dumps(ex['witness'])):
                self.known_ex[fid] = v
            return fid
        self._vk[kind] += 1
        if self._vk[kind] <= MAX_VIOL_PER_KIND:
            self.violations.append(v)
        return None

    def dump(self):
        return {'counters': dict(self.counters), 'nontrivial': sorted(self.nontrivial),
                'violations': self.violations, 'violation_counts': dict(self._vk),
                'known': dict(self.known), 'known_ex': self.known_ex,
                'samples': self.samples, 'sets': {k: _sorted_any(v) for k, v in self.sets.items()},
                'wall_s': time.time() - self.t0}


def tb_site(exc):
    """(function, source line text) of the innermost frame that lies in parso."""
    site = None
    for fr in traceback.extract_tb(exc.__traceback__):
        if os.sep + 'parso' + os.sep in fr.filename and os.sep + 'vmon' + os.sep not in fr.filename:
            site = fr
    in_parso = site is not None
    if site is None:
        frs = traceback.extract_tb(exc.__traceback__)
        site = frs[-1] if frs else None
    if site is None:
        return {'func': '?', 'line': '?', 'file': '?', 'in_parso': False}
    return {'func': site.name, 'line': (site.line or '').strip(), 'file': os.path.basename(site.filename), 'in_parso': in_parso}


def exc_info(exc):
    d = tb_site(exc)
    d['type'] = type(exc).__name__
    d['text'] = str(exc)[:200]
    return d


# ---------------------------------------------------------------------
# parent side

def _run_one(pid, idx, spec, outdir, timeout):
    specf = os.path.join(outdir, 'spec%d.json' % idx)
    outf = os.path.join(outdir, 'out%d.json' % idx)
    with open(specf, 'w') as f:
        json.dump(spec, f)
    env = dict(os.environ)
    env.setdefault('PYTHONHASHSEED', '0')
    env['PYTHONDONTWRITEBYTECODE'] = '1'
    env['PYTHONPATH'] = VERIF
    t0 = time.time()
    try:
        p = subprocess.run([PY, '-m', 'vmon.worker', pid, specf, outf], cwd=VERIF, env=env,
                           stdout=subprocess.PIPE, stderr=subprocess.STDOUT, timeout=timeout)
        rc, log = p.returncode, p.stdout.decode('utf-8', 'replace')
    except subprocess.TimeoutExpired as e:
        rc, log = 'timeout', (e.stdout or b'').decode('utf-8', 'replace')
    res = None
    if os.path.exists(outf):
        try:
            with open(outf) as f:
                res = json.load(f)
        except Exception:
            res = None
    return {'idx': idx, 'rc': rc, 'log': log[-4000:], 'res': res, 'wall': time.time() - t0}


def run_shards(pid, specs, timeout):
    os.makedirs(WORK, exist_ok=True)
    outdir = os.path.join(WORK, '%s.%d' % (pid, os.getpid()))
    os.makedirs(outdir, exist_ok=True)
    try:
        with ThreadPoolExecutor(max_workers=NCPU) as ex:
            futs = [ex.submit(_run_one, pid, i, s, outdir, timeout) for i, s in enumerate(specs)]
            return [f.result() for f in futs]
    finally:
        import shutil
        shutil.rmtree(outdir, ignore_errors=True)


def executable_lines(path):
    """line numbers that carry code (from the code objects of the compiled file) and the source lines"""
    with open(path) as f:
        src = f.read()
    out = set()

    def rec(co):
        for _, _, ln in co.co_lines():
            if ln:
                out.add(ln)
        for c in co.co_consts:
            if hasattr(c, 'co_lines'):
                rec(c)
    rec(compile(src, path, 'exec'))
    return out, src.splitlines()


def merge(results):
    m = {'counters': collections.Counter(), 'nontrivial': set(), 'violations': [], 'linecov': set(),
         'violation_counts': collections.Counter(), 'known': collections.Counter(), 'known_ex': {},
         'samples': [], 'sets': collections.defaultdict(set), 'problems': []}
    for r in results:
        res = r['res']
        if r['rc'] != 0 or res is None:
            m['problems'].append('shard %d rc=%s: %s' % (r['idx'], r['rc'], r['log'][-600:]))
            if res is None:
                continue
        m['counters'].update(res['counters'])
        m['linecov'].update(tuple(x) for x in res.get('linecov') or ())
        m['nontrivial'].update(res['nontrivial'])
        m['violations'].extend(res['violations'])
        m['violation_counts'].update(res['violation_counts'])
        m['known'].update(res['known'])
        for k, v in res['known_ex'].items():
            if k not in m['known_ex'] or len(json.dumps(v['witness'])) < len(json.dumps(m['known_ex'][k]['witness'])):
                m['known_ex'][k] = v
        for s in res['samples']:
            if len(m['samples']) < 8:
                m['samples'].append(s)
        for k, v in res['sets'].items():
            m['sets'][k].update(v)
    return m
