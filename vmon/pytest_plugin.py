"""pytest plugin: run the repository's own suite with the contracts of one property switched on
(recording mode).   pytest -p vmon.pytest_plugin   with env VMON_SUITE_PROP=C01 VMON_SUITE_OUT=<file>."""
import importlib
import json
import os

from . import harness

_ctx = None


def pytest_configure(config):
    global _ctx
    pid = os.environ.get('VMON_SUITE_PROP')
    if not pid:
        return
    harness.ensure_deps()
    harness.import_parso()
    mod = importlib.import_module('vmon.props.' + pid.lower())
    _ctx = harness.Ctx(pid)
    _ctx.count('suite_run')
    mod.install_for_suite(_ctx)


def pytest_sessionfinish(session, exitstatus):
    out = os.environ.get('VMON_SUITE_OUT')
    if _ctx is not None and out:
        _ctx.counters['suite_exitstatus'] = int(exitstatus)
        with open(out, 'w') as f:
            json.dump(_ctx.dump(), f)
