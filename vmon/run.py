"""Entry point of every check:  python -m vmon.run <ID> --tier quick|thorough [--replay FILE]"""
import argparse
import importlib
import json
import os
import sys
import time

from . import harness


def main(argv=None):
    ap = argparse.ArgumentParser()
    ap.add_argument('pid')
    ap.add_argument('--tier', default=os.environ.get('VERIF_TIER', 'quick'), choices=['quick', 'thorough'])
    ap.add_argument('--replay')
    ap.add_argument('--seed', type=int, default=None)
    a = ap.parse_args(argv)
    pid = a.pid.upper()
    seed = a.seed if a.seed is not None else int(os.environ.get('VERIF_SEED', '0') or 0)
    t0 = time.time()
    harness.ensure_deps()
    mod = importlib.import_module('vmon.props.' + pid.lower())

    if a.replay:
        with open(a.replay) as f:
            w = json.load(f)
        specs = [{'replay': w['witness'], 'seed': seed, 'tier': a.tier}]
    else:
        specs = mod.shards(a.tier, seed)
        for i, s in enumerate(specs):
            s.setdefault('seed', seed * 1000003 + i)
            s.setdefault('tier', a.tier)
            s.setdefault('shard', i)
            s.setdefault('nshards', len(specs))
    timeout = getattr(mod, 'SHARD_TIMEOUT', {'quick': 420, 'thorough': 7200})[a.tier]
    results = harness.run_shards(pid, specs, timeout)
    slow = sorted(((round(r['wall'], 1), r['idx'], specs[r['idx']].get('kind')) for r in results), reverse=True)[:3]
    m = harness.merge(results)
    if hasattr(mod, 'post_merge') and not a.replay:
        mod.post_merge(m, a.tier)

    # ---- verdict ------------------------------------------------------
    unknown = m['violations']
    n_unknown = sum(m['violation_counts'].values())
    inconclusive = list(m['problems'])
    if not a.replay:
        floors = mod.floors(a.tier) if hasattr(mod, 'floors') else {}
        for name, lo in floors.items():
            got = m['counters'].get(name, 0) if not name.startswith('set:') else len(m['sets'].get(name[4:], ()))
            if got < lo:
                inconclusive.append('monitor reach too low: %s=%d < %d' % (name, got, lo))

    replay_paths = []
    if unknown and not a.replay:
        rdir = os.path.join(os.environ.get('VERIF_REPLAY_DIR') or os.path.join(harness.VERIF, 'replay'), pid)
        os.makedirs(rdir, exist_ok=True)
        seen_kinds = set()
        for v in unknown:
            if v['kind'] in seen_kinds and len(replay_paths) >= 5:
                continue
            seen_kinds.add(v['kind'])
            name = '%s-%016x.json' % (v['kind'].replace('/', '_').replace(' ', '_')[:40],
                                      harness.h64(json.dumps(v, sort_keys=True)))
            path = os.path.join(rdir, name)
            with open(path, 'w') as f:
                json.dump(dict(v, seed=seed, tier=a.tier), f, indent=1)
            replay_paths.append((v, path))

    # ---- evidence -----------------------------------------------------
    c = m['counters']
    cov = {
        'evaluations': int(c.get('evaluations', 0)),
        'distinct_nontrivial': len(m['nontrivial']),
        'rule': getattr(mod, 'RULE', ''),
        'samples': m['samples'] or ['(no sample recorded)'],
        'observed': {k: int(v) for k, v in sorted(c.items()) if k != 'evaluations'},
        'observed_distinct': {k: len(v) for k, v in sorted(m['sets'].items())},
        'observed_values': {k: harness._sorted_any(v)[:120] for k, v in sorted(m['sets'].items()) if len(v) <= 120},
        'shards': len(specs),
        'slowest_shards_wall_s_index_kind': [list(x) for x in slow],
        'known_findings_seen': {k: int(v) for k, v in sorted(m['known'].items())},
        'unknown_violation_kinds': dict(m['violation_counts']),
        'verdict': 'violated' if n_unknown else ('inconclusive' if inconclusive else 'held on what was observed'),
    }
    if hasattr(mod, 'extra_coverage'):
        cov.update(mod.extra_coverage(m, a.tier))
    if m.get('linecov'):
        # which lines of the files the property is anchored in did the workload execute (sys.monitoring LINE events in every shard)
        try:
            anchored = []
            with open(os.path.join(harness.VERIF, 'properties.jsonl')) as f:
                for line in f:
                    pr = json.loads(line)
                    if pr['id'] == pid:
                        anchored = [x[len('parso/'):] for x in pr.get('anchors', {}).get('files', []) if x.startswith('parso/') and x.endswith('.py')]
            lc = {}
            for rel in anchored:
                ex, _ = harness.executable_lines(os.path.join(harness.REPO, 'parso', rel))
                got = {ln for fn, ln in m['linecov'] if fn == rel}
                miss = sorted(ex - got)
                lc[rel] = {'executable_lines': len(ex), 'executed': len(ex) - len(miss), 'never_executed_lines': miss[:80]}
            cov['anchored_code_lines'] = lc
        except Exception as e:
            cov['anchored_code_lines'] = {'error': repr(e)}
    if inconclusive:
        cov['inconclusive_reasons'] = inconclusive[:10]
    ev = {'property_id': pid, 'tier': a.tier, 'seed': seed, 'level': getattr(mod, 'LEVEL', 'exploration'),
          'coverage': cov, 'assumptions': getattr(mod, 'ASSUMPTIONS', []),
          'wall_s': round(time.time() - t0, 2), 'violations': int(n_unknown)}
    if not a.replay:
        evdir = os.environ.get('VERIF_EVIDENCE_DIR') or os.path.join(harness.VERIF, 'evidence')
        os.makedirs(evdir, exist_ok=True)
        with open(os.path.join(evdir, pid + '.json'), 'w') as f:
            json.dump(ev, f, indent=1, sort_keys=True)
            f.write('\n')

    # ---- report -------------------------------------------------------
    print('%s tier=%s seed=%d evaluations=%d nontrivial=%d wall=%.1fs' % (
        pid, a.tier, seed, cov['evaluations'], cov['distinct_nontrivial'], time.time() - t0))
    for k, v in sorted(c.items()):
        print('  observed %-40s %d' % (k, v))
    for k, v in sorted(m['sets'].items()):
        print('  distinct %-40s %d' % (k, len(v)))
    from . import known
    for fid, n in sorted(m['known'].items()):
        ex = m['known_ex'].get(fid, {})
        print('KNOWN-FINDING: property=%s %s -- %s (seen %d times; e.g. %s)' % (
            pid, fid, known.describe(fid), n, json.dumps(ex.get('witness'))[:200]))
    if n_unknown:
        for v, path in replay_paths:
            print('  violation kind=%s msg=%s' % (v['kind'], v['msg'][:300]))
            print('VIOLATION property=%s replay=%s' % (pid, path))
        if a.replay:
            for v in unknown:
                print('  violation kind=%s msg=%s' % (v['kind'], v['msg'][:300]))
            print('VIOLATION property=%s replay=%s' % (pid, a.replay))
        return 1
    if inconclusive:
        for r in inconclusive[:10]:
            print('INCONCLUSIVE property=%s %s' % (pid, r.replace('\n', ' | ')[:1500]))
        return 2
    print('HELD property=%s on what was observed' % pid)
    return 0


if __name__ == '__main__':
    sys.exit(main())
