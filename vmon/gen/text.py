"""Workload generators shared by the text-input properties (DESIGN §1.3)."""
import glob
import os

from .. import harness
from .structured import structured_program, template_line  # noqa: F401

VERSIONS = harness.VERSIONS

FRAG = [
    'def ', 'class ', 'if ', 'else', 'elif ', 'for ', 'in ', 'while ', 'try', 'except', 'finally',
    'with ', 'as ', 'import ', 'from ', 'return ', 'yield ', 'lambda ', 'async ', 'await ', 'pass',
    'break', 'continue', 'global ', 'nonlocal ', 'del ', 'assert ', 'raise ', 'not ', 'and ', 'or ',
    'is ', 'match ', 'case ', 'type ', 'print ', 'exec ', 'None', 'True', '__debug__',
    'x', 'y', 'foo', 'a.b', '1', '0x1f', '1.5e3', '1_000', '1j', '0777', '1__0', '1e', '0b12',
    '"s"', "'t'", '"""', "'''", '"', "'", 'f"', "f'", 'F"""', "rf'", 'b"', 'rb"', 'u"', 'br\'', 'fb"',
    '{', '}', '{{', '}}', '!r', ':', ':=', '(', ')', '[', ']',
    ',', '.', '...', ';', '=', '==', '+=', '->', '*', '**', '@', '+', '-', '~', '<', '>', '<>', '!=',
    '!', '$', '?', '`', '\\', '\\\n', '\\\r\n', '\\\r', '#', '# c\n', '#\x0c', '# -*- coding: x\n',
    ' ', '  ', '    ', '\t', '\n', '\r', '\r\n', '\f', '\v', '\x1c', '\x1d', '\x1e', '\x85',
    '\u2028', '\u2029', '\xa0', '\ufeff', '\xe9', '\u2139', '\xb2', '\u0300', '\x00', '\u3000',
    '\n    ', '\n        ', '\n  ', '\n\t', ':\n    ', ':\n', '\U0001f600',
]

FS = [
    'f"', "f'", 'f"""', "f'''", 'rf"', 'fr\'', '"', "'", '"""', "'''", '{', '}', '{{', '}}', ':', '!r',
    '!', '=', '\\', '\\\n', '\\\r\n', '\\\r', '\n', '\r', '\r\n', 'x', ' ', '\\N{DASH}', '\\N{', '#',
    '(', ')', '[', ']', ':=', 'lambda', 'def ', 'class ', '\f', '\x85', '\xa0', '\x1c', '\v', '>10',
    '.2f', 'a', ',', '*', 'yield', ';', 'import ', '\t', '\\{', '\\}', '\u2028', '!=', '==',
    '\\N{LATIN CAPITAL LETTER A WITH RING ABOVE AND ACUTE', '\\N{GREEK SMALL LETTER ALPHA WITH PSILI AND VARIA AND YPOGEGRAMMENI}', '\\N{a b c d e f g h i j k l m n o p q r s t u v w x y z 0 1 2 3 4 5',
    "br'abc\\\n", 'Rb"x\\\n', "rb'\\\r\n", 'bR"""', "fr'", 'Rf"',
]


def garbage(rng, n=None):
    n = n or rng.randint(1, 40)
    return ''.join(rng.choice(FRAG) for _ in range(n))


def fgarbage(rng, n=None):
    n = n or rng.randint(1, 25)
    return ''.join(rng.choice(FS) for _ in range(n))


def mixed(rng):
    r = rng.random()
    if r < .4:
        return fgarbage(rng)
    if r < .7:
        return garbage(rng)
    return ''.join(rng.choice([fgarbage, garbage])(rng, rng.randint(1, 8)) for _ in range(rng.randint(1, 5)))


# Snippets that make every registered syntax rule look at something (C13/C12/C20).
RULE_TRIGGERS = [
    # a global/nonlocal name in the header of a with statement with several items; a BOM followed by a continuation line
    'def f():\n    global lock\n    with lock, open(p) as fh:\n        lock = None\n', 'def f():\n    x = 1\n    def g():\n        nonlocal x\n        with a, x, b as x:\n            pass\n',
    'def f():\n    global a, b\n    with (a, b as c, d): pass\n', 'def f():\n    global m\n    async with m, n as m: pass\n',
    '\ufeff\\\n\tx = 1\n', '\ufeff \\\n\\\n  y = 2\n', '\ufeff\\\n    if x:\n  pass\n', '\ufeff# c\\\n\\\n\tz\n',
    # several names that are both global and nonlocal / unbound nonlocal on one line (which one is reported must not depend on the process)
    'def f():\n    global a, b\n    nonlocal a, b\n', 'def f():\n    a = b = c = 1\n    def g():\n        global a, b, c; nonlocal a, b, c\n',
    'def f():\n    def g():\n        def h():\n            nonlocal p, q, r\n', 'def f():\n    def g():\n        nonlocal u, v\n        nonlocal w, x\n    global u, v, w, x\n',
    'def f():\n    nonlocal a, b; global b, a\n', 'class A:\n    def f(self):\n        def g():\n            nonlocal m, n, o, __class__\n',
    # multi-line string literals: characters str.splitlines() breaks at, and continuation lines with mixed tab/space indentation
    "text = '''one two three\x85four\n \tmixed\n'''\n", 'doc = \"\"\"a\x0cb\x0bc\n\t bad\n  \tworse\n\"\"\"', "s = '''\x1c\x1d\x1e\n \t \tx'''",
    'def f():\n    \"\"\"summary\x0c\n\n    \tbody\n \t   end\n    \"\"\"\n', "x = [\n    '''a \n\t b''',\n]\n", "b = b'''\x85\n \tz\n'''\ny = 1",
    # branches of errors.py that tools/linecov.py showed the workload never executed
    'from __future__ import barry_as_FLUFL\n', 'from __future__ import barry_as_FLUFL, division\n', 'x = 1\nfrom __future__ import barry_as_FLUFL\n',
    '{1, 2} += 1\n', '{1: 2} += 1\n', '{**a} += 1\n', '{} += 1\n', '[x for x in y] += 1\n', '{x for x in y} += 1\n', '{x: 1 for x in y} += 1\n',
    '(x for x in y) += 1\n', 'None += 1\n', '... += 1\n', '() += 1\n', '(a, b) += 1\n', '((a)) += 1\n', '[] += 1\n', '[a, b] += 1\n',
    'lambda: 0 += 1\n', 'a < b += 1\n', "'s' += 1\n", "'s' 't' += 1\n", '1 += 1\n', '(yield) += 1\n', 'x if y else z += 1\n', 'await x += 1\n',
    '-a += 1\n', 'a + b += 1\n', 'a * b += 1\n', 'a ** b += 1\n', 'not a += 1\n', 'a or b += 1\n', '*a += 1\n', 'a, b += 1\n', "f'{x}' += 1\n",
    'a[0] += 1\n', 'a.b.c += 1\n', 'a().b += 1\n', 'a()[0] += 1\n', '(a.b) += 1\n', '(a[0]) += 1\n', 'a @= b\n', 'a //= b; a >>= b; a **= b\n',
    'del *a, b\n', 'del (*a,)\n', 'del [*a]\n', 'del (*a)\n', 'del f(*a)\n', 'del x[*a]\n', 'del (a, (b, *c))\n',
    '[(y := x) async for x in z]\n', 'async def f():\n    return [(y := x) async for x in z]\n', '{(y := x) async for x in z}\n',
    '((y := x) async for x in z)\n', '[x async for x in z if (y := x)]\n', '[[(y := x) for a in b] async for x in z]\n', '[(x := 1) async for x in z]\n',
    'first, *self.rest = items\n', 'head, *(mid, last) = items\n', 'for key, *obj.values in rows: pass\n', '*a[0], b = c\n', '[*a.b] = c\n',
    'a, *[b, c] = d\n', 'with x as (a, *b.c): pass\n', '[x for a, *b.c in d]\n', 'del a, *b\n',
    "def f():\n    return f'{(yield)}'\n", "def f(y):\n    return f'y:{yield y*2}'\n", "async def f():\n    x = f'{a:{(yield)}}'\n",
    "def f():\n    x = 'a' f'{(yield from g())}' 'b'\n", "def f():\n    return f'yield'\n", "def f():\n    return f'{lambda: (yield)}'\n",
    'def f():\n' + ''.join('    ' * (k + 1) + 'if x:\n' for k in range(20)) + '    ' * 21 + 'pass\n',
    ''.join(' ' * k + 'for i in j:\n' for k in range(21)) + ' ' * 21 + 'pass\n',
    'def f():\n' + ''.join(' ' * (k + 1) + ['while x:\n', 'try:\n', 'with a:\n'][k % 3] for k in range(22)) + ' ' * 23 + 'pass\n',
    'from __future__.a import b\n', 'x = 1\nfrom __future__.a import b\n', 'from __future__.a.b import *\n', 'raw = b"\\N{foo}"\n', 'txt = "\\N{foo}"\n',
    'b"\\u12"\n', '"\\u12"\n', 'b"\\U0011"\n', '"\\U0011"\n', 'b"\\N{v10"\n', '"\\N{v10"\n',
    'from __future__ import *\n', 'from __future__ import annotations\n', 'from __future__ import braces\n',
    'from __future__ import nested_scopes, x\n', 'from . import *\n', 'from x import (a, b,)\n',
    'import a.b as c\n', 'from x import *\n', '__debug__ = 1\n', 'None = 1\n', 'True += 1\n',
    'def f(__debug__): pass\n', 'nonlocal x\n', 'global x\n', 'def f():\n    nonlocal x\n',
    'def f(x):\n    global x\n', 'def f():\n    x = 1\n    global x\n', 'def f():\n    x: int\n    nonlocal x\n',
    'class A:\n    nonlocal __class__\n', 'def f():\n    import a.b\n    global b\n',
    '*a = 1\n', '*a, *b = c\n', 'a, *b = c\n', '[*a] = c\n', '(*a) = 1\n', 'del *a\n', 'for *a in b: pass\n',
    'f(*a, **b, c)\n', 'f(a=1, b)\n', 'f(**a, *b)\n', 'f(a for a in b, c)\n', 'f(a=1, a=2)\n', 'f(x := 1)\n',
    'f(lambda: 1 = 2)\n', 'f(a.b=1)\n', '(a := 1)\n', 'a := 1\n', '[a := 1 for a in b]\n', '(x.y := 1)\n',
    'x: int = 1\n', '(x): int\n', 'x, y: int\n', '[x]: int\n', 'x.y: int\n', 'x[0]: int\n',
    'x += 1\n', '(x, y) += 1\n', 'f() += 1\n', 'x.y += 1\n', '[x] += 1\n',
    'f() = 1\n', '1 = x\n', 'a + b = 1\n', '(yield) = 1\n', 'lambda: x = 1\n', 'a if b else c = 1\n',
    '"s" = 1\n', 'f"{x}" = 1\n', '... = 1\n', '{a: b} = 1\n', '{a} = 1\n', '[a for a in b] = 1\n',
    'a == b = 1\n', 'not a = 1\n', '-a = 1\n', 'await a = 1\n', 'a() = 1\n', 'a, b() = 1\n',
    'del f()\n', 'del 1\n', 'del (a, b)\n', 'del a.b, c[0]\n', 'del (a for a in b)\n', 'del [a, b]\n',
    'with a as b: pass\n', 'with a as f(): pass\n', 'with (a as b, c as d): pass\n', 'with a as (b, c): pass\n',
    'for f() in x: pass\n', 'for a, b in x: pass\n', 'for a.b in x: pass\n',
    'async def f():\n    await x\n', 'await x\n', 'def f():\n    await x\n', 'async def f():\n    yield from x\n',
    '[await x for x in y]\n', '[x async for x in y]\n', '(await x for x in y)\n', 'async with a: pass\n',
    'async for a in b: pass\n', 'async def f():\n    async with a: pass\n', 'async x = 1\n',
    'yield x\n', 'return 1\n', 'def f():\n    return 1\n    yield\n', 'async def f():\n    yield 1\n    return 2\n',
    'class A:\n    yield 1\n', 'class A:\n    return 1\n', 'x = lambda: (yield)\n', 'x = yield\n',
    'break\n', 'continue\n', 'for x in y:\n    break\nelse:\n    continue\n', 'while x:\n    def f():\n        break\n',
    'for x in y:\n    try:\n        pass\n    finally:\n        continue\n', 'try:\n    pass\nfinally:\n    break\n',
    'try:\n    pass\nexcept:\n    pass\nexcept A:\n    pass\n', 'try:\n    pass\nexcept* A:\n    pass\n',
    'try:\n    pass\nexcept A as b.c:\n    pass\n',
    'def f(*,): pass\n', 'lambda *,: 0\n', 'def f(*, ): pass', 'def f(/,): pass\n', 'def f(*, a): pass\n', 'lambda *, k=1: k\n', 'def f(a, *,): pass\n',
    'def f(a, a): pass\n', 'def f(a=1, b): pass\n', 'def f(*, a): pass\n', 'def f(*): pass\n', 'def f(a, /, b): pass\n',
    'def f(/): pass\n', 'def f(*a, *b): pass\n', 'def f(**a, b): pass\n', 'lambda a, a: 1\n', 'lambda a=1, b: 1\n',
    'lambda *: 1\n', 'def f(a, *, b, **c) -> x: pass\n', 'def f(a: int = 1, *b: x, c: y = 2, **d: z): pass\n',
    '@a.b(c)\ndef f(): pass\n', '@a[0]\nclass A: pass\n', '@x := y\ndef f(): pass\n',
    'f"{x!r:>{w}}"\n', 'f"{}"\n', 'f"{a b}"\n', 'f"{x!x}"\n', 'f"{x:{y:{z}}}"\n', 'f"{\\n}"\n', 'f"{#}"\n',
    'f"{x=}"\n', 'f"{x = !r}"\n', "f'{a['b']}'\n", 'f"{lambda x: 1}"\n', 'f"{x:{{}}}"\n', 'f"{*a}"\n',
    'rf"\\{x}"\n', 'f"""\n{x\n}"""\n', 'f"{yield}"\n', 'f"{a:=1}"\n', 'f"{(a:=1)}"\n',
    'b"\\xff" "a"\n', '"a" b"b"\n', '"\\N{foo}"\n', '"\\x1"\n', 'b"\\u1234"\n', '"\\400"\n', 'u"\\8"\n',
    '0777\n', '1_\n', '0x\n', '1e+\n', '1__0\n', '0_7\n', '00\n', '1if 2else 3\n', '0x1for x in y\n',
    'x = 1 if 2\n', 'print 1\n', 'exec "x"\n', 'a <> b\n', '`a`\n', '$\n', '?\n', 'a = $\n', '\x00\n',
    'match x:\n    case 1: pass\n', 'match x:\n    case [a, *b]: pass\n    case {"k": v, **r}: pass\n    case A(b=c) | D(): pass\n',
    'match x:\n    case a if a > 1: pass\n    case _: pass\n', 'match = 1\n', 'case = 2\n',
    'type X = int\n', 'type X[T] = list[T]\n', 'def f[T: int, *Ts, **P](a: T) -> T: pass\n', 'class A[T](B): pass\n',
    'x = [\n    1,\n  2,\n]\n', 'if x:\n        pass\n    pass\n', 'if x:\npass\n', '    x\n', 'if x:\n    a\n  b\n',
    'if x:\n\ta\n        b\n', 'def f():\n  pass\n\n\n\n\nx=1\n', 'x = 1;\n', 'x = 1 ; y = 2\n', 'if x == None: pass\n',
    'l = 1\nO = 2\nI = 3\n', 'def l(): pass\n', 'class I: pass\n', 'import os, sys\n', 'x=1 # c\n', 'x = ( 1 )\n',
    'x = a if b  else c\n', 'lambda: 0\n', 'x = {"a" : 1}\n', 'f (x)\n', 'x [0]\n', 'a = not  b\n', 'a  = 1\n',
    'if x :\n    pass\n', 'def f(a = 1): pass\n', 'def f(a: int=1): pass\n', 'x = x  +  1\n', 'x = -  1\n',
    'import a;import b\n', 'try: pass\nexcept: pass\n', 'assert(x)\n', 'x = 1\\\n    + 2\n', 'x = """\n  a\n"""\n',
    'if (a and\n    b):\n    pass\n', 'foo(a,\n    b)\n', 'foo(\n        a,\n    )\n', 'x = [a,\n     b\n  ]\n',
    'class A:\n\n    def f(self): pass\n    def g(self): pass\n', 'def f(): pass\ndef g(): pass\n',
    '@d\n\ndef f(): pass\n', 'x = 1\n\n\n\n', 'x = 1  \n', '\n\nx = 1', 'x = 1\n# c\n    # d\ny\n', '#!shebang\n#:x\n#c\n',
    'from a import (b,\n    c)\n', 'a = b if c else \\\n    d\n', 'x = (  # c\n    1)\n', 'def f(a,\n    b): pass\n',
    'x = 1' + ' ' * 75 + '#\n', '#' + ' ' * 85 + '\n', '# ' + 'a' * 90 + '\n', 'x = "' + 'a' * 90 + '"\n', 'def f():\n    return 1' + ' ' * 8 + '#   \n',
    'x = 1  #' + ' ' * 30 + '\n', '#' * 100 + '\n', 'x = [' + '1, ' * 40 + ']\n', '# http://' + 'a' * 100 + '\n', 'x = 1  # http://' + 'a' * 100 + '\n',
    'if a: b\nelif c: d\nelse: e\n', 'while a: b; c\n', 'with a: b\n', 'class A: x = 1; y = 2\n',
]


# ---------------------------------------------------------------------------
# corpus

def _read(path):
    try:
        with open(path, 'rb') as f:
            return f.read().decode('utf-8')
    except Exception:
        return None


_CORPUS = {}


def repo_files():
    if 'repo' not in _CORPUS:
        r = harness.REPO
        fs = sorted(glob.glob(r + '/parso/**/*.py', recursive=True)) + sorted(glob.glob(r + '/test/*.py')) \
            + sorted(glob.glob(r + '/test/normalizer_issue_files/*.py')) + sorted(glob.glob(r + '/*.py')) \
            + sorted(glob.glob(r + '/docs/**/*.py', recursive=True)) + sorted(glob.glob(r + '/scripts/*.py')) \
            + sorted(glob.glob(r + '/test/fuzz_diff_parser.py'))
        _CORPUS['repo'] = sorted(set(fs))
    return _CORPUS['repo']


PYENV = '/root/.pyenv/versions'
INTERP = {'3.6': '3.6.15', '3.7': '3.7.16', '3.8': '3.8.18', '3.9': '3.9.18', '3.10': '3.10.13',
          '3.11': '3.11.7', '3.12': '3.12.1', '3.13': '3.13.0'}


def interpreter(v):
    """path of the reference CPython for grammar version v (3.14 is judged by 3.13)"""
    vv = '3.13' if v == '3.14' else v
    p = '%s/%s/bin/python' % (PYENV, INTERP[vv])
    return p if os.path.exists(p) else None


def stdlib_files(v):
    vv = '3.13' if v == '3.14' else v
    key = 'std' + vv
    if key not in _CORPUS:
        root = '%s/%s/lib/python%s' % (PYENV, INTERP[vv], vv)
        fs = [f for f in sorted(glob.glob(root + '/**/*.py', recursive=True)) if '/site-packages/' not in f]
        _CORPUS[key] = fs
    return _CORPUS[key]


def corpus_files(rng=None, with_stdlib=True):
    fs = list(repo_files())
    if with_stdlib:
        fs += stdlib_files('3.12')
    return fs


_TEXTS = {}


def file_text(path):
    if path not in _TEXTS:
        if len(_TEXTS) > 400:
            _TEXTS.clear()
        _TEXTS[path] = _read(path)
    return _TEXTS[path]


def split_keep(s):
    """python line splitting (\\n, \\r\\n, \\r), independent of parso"""
    out, i, n, st = [], 0, len(s), 0
    while i < n:
        c = s[i]
        if c == '\n' or c == '\r':
            if c == '\r' and i + 1 < n and s[i + 1] == '\n':
                i += 1
            out.append(s[st:i + 1])
            st = i + 1
        i += 1
    out.append(s[st:])
    return out


def corpus_slice(rng, files, maxlines=80, inject=(0, 3), frags=None):
    """1..maxlines consecutive lines of a real file with a few fragments injected"""
    for _ in range(20):
        t = file_text(rng.choice(files))
        if t:
            break
    else:
        return 'x = 1\n'
    ls = split_keep(t)
    a = rng.randrange(len(ls))
    ls = ls[a:a + rng.randint(1, maxlines)]
    frags = frags or (FRAG + FS)
    for _ in range(rng.randint(*inject)):
        if ls:
            i = rng.randrange(len(ls))
            c = rng.randint(0, len(ls[i]))
            ls[i] = ls[i][:c] + rng.choice(frags) + ls[i][c:]
    return ''.join(ls)


def hostile(rng, files, trig=0.15):
    """the default hostile mix: garbage / fgarbage / slices+inject / rule triggers"""
    r = rng.random()
    if r < .05:
        return eof_program(rng)
    if r < .075:
        return lookalike(rng, files)
    if r < .13:
        return ''.join(fstring_program(rng) for _ in range(rng.choice([1, 1, 2, 3])))
    if r < .16:
        return ''.join(inflate(split_keep(corpus_slice(rng, files, maxlines=12, inject=(0, 1)) if rng.random() < .6 else mixed(rng)), rng))
    if r < .30:
        return mixed(rng)
    if r < .30 + trig:
        parts = [rng.choice(RULE_TRIGGERS) for _ in range(rng.randint(1, 3))]
        if rng.random() < .4:
            parts.insert(rng.randrange(len(parts) + 1), garbage(rng, rng.randint(1, 5)))
        if rng.random() < .3:
            i = rng.randrange(len(parts))
            parts[i] = ''.join('    ' + l for l in split_keep(parts[i]) if l)
            parts.insert(i, rng.choice(['def f():\n', 'class A:\n', 'if x:\n', 'async def f():\n', 'for x in y:\n']))
        return ''.join(parts)
    return corpus_slice(rng, files)



# ---------------------------------------------------------------------------
# deep nesting: valid (and slightly broken) programs whose trees are 20..330 levels deep, the range in which the
# tree walkers of parso (visit, dump, pickle, get_code) still work below CPython's recursion limit

_DEEP_WRAP = [('(', ')'), ('[', ']'), ('f(', ')'), ('{1: ', '}'), ('[0, ', ']'), ('(a, ', ')'), ('not ', ''), ('- ', ''), ('lambda: ', ''),
              ('x if y else ', ''), ('a[', ']'), ('g(k=', ')'), ('await ', ''), ('*', ''), ('{', '}')]
_DEEP_CORE = ['x', '1', 'inner + 1', "'s'", 'a.b', 'f"{x}"', 'yield', 'x := 1', '', 'a b', '(', 'lambda: 0', 'x for x in y']
_DEEP_BLOCK = ['if x:\n', 'for i in j:\n', 'while x:\n', 'def f():\n', 'class A:\n', 'try:\n', 'with a:\n', 'async def g():\n', 'else:\n']


def deep(rng, max_levels=330):
    """an expression nested `levels` times (one or two bracket kinds), optionally inside nested blocks"""
    levels = rng.choice([rng.randint(20, 120), rng.randint(120, 250), rng.randint(250, max_levels)])
    kinds = [rng.choice(_DEEP_WRAP) for _ in range(rng.choice([1, 1, 2, 3]))]
    nblocks = rng.choice([0, 0, 1, 5, 20, 60])
    if nblocks:
        levels = max(5, levels - 2 * nblocks)
    o, c = [], []
    for k in range(levels):
        a, b = kinds[k % len(kinds)] if rng.random() < .97 else rng.choice(_DEEP_WRAP)
        o.append(a)
        c.append(b)
    expr = ''.join(o) + rng.choice(_DEEP_CORE) + ''.join(reversed(c))
    if rng.random() < .08:
        k = rng.randrange(len(expr))
        expr = expr[:k] + expr[k + 1:]          # one character missing: deep recovery
    out = []
    for k in range(nblocks):
        out.append(' ' * k + rng.choice(_DEEP_BLOCK))
    stmt = rng.choice(['', 'x = ', 'return ', 'y += ', 'assert ', 'del ', 'print(x); z = '])
    out.append(' ' * nblocks + stmt + expr + rng.choice(['\n', '\n', '', '  # c\n']))
    if rng.random() < .3:
        out.append('tail = 1\n')
    return ''.join(out)


# ---------------------------------------------------------------------------
# end-of-file forms: what the parser's end handling (missing NEWLINE, pending DEDENTs, single-leaf statements) sees

_EOF_HEADERS = ['class A:', 'def f():', 'if x:', 'else:', 'for i in j:', 'while x:', 'try:', 'finally:', 'with a:', 'async def g():', 'except E:',
                'elif y:', 'match v:', 'case _:', 'class B(A):', 'def h(a, /, b, *, c):', 'lambda:', '@d']
_EOF_LAST = ['...', 'pass', 'x', '1', "'s'", 'None', 'break', 'continue', 'return', 'yield', 'x = 1', 'return x', 'a.b', 'f()', 'x;', 'pass; ...', '...; pass',
             'x = (', ')', 'del x', 'raise', 'global g', 'import os', 'x: int', 'await y', '*a', 'not x', '-1', 'f"{x}"', "'a' 'b'", 'lambda: 0', '[...]', '...,',
             'x = ...', '... if ... else ...', 'def k(): ...', 'class K: ...', 'if x: ...', 'x = yield', '@', ':', '..', '....', '. . .', '->', ':=']
_EOF_ENDS = ['', '', '', '\n', ' ', '\t', '\\\n', '  # c', '\n    ', '\n\n', '\r', '\r\n', '\x0c', ';', ' \\', '\n#', '\n  # c\n', '\n\\\n']


def eof_program(rng):
    depth = rng.choice([0, 1, 1, 1, 2, 2, 3])
    out, ind = [], ''
    if rng.random() < .3:
        out.append(rng.choice(['x = 1\n', '"""doc"""\n', '\n', '# c\n', 'import a\n']))
    for k in range(depth):
        h = rng.choice(_EOF_HEADERS)
        if k == depth - 1 and rng.random() < .35:
            out.append(ind + h + ' ')                  # one-line suite: the last statement follows on the same line
            ind = None
            break
        out.append(ind + h + '\n')
        if not h.startswith('@'):
            ind += rng.choice(['    ', '    ', ' ', '\t', '        '])
        if rng.random() < .3:
            out.append(ind + rng.choice(['pass\n', 'x = 1\n', '...\n', '# c\n', '\n']))
    out.append((ind or '') + rng.choice(_EOF_LAST) + rng.choice(_EOF_ENDS))
    return ''.join(out)


# ---------------------------------------------------------------------------
# size thresholds: tokens and physical lines around the sizes at which implementations change behaviour
# (small-int cache 256, typical memo/bloom thresholds 1024/4096, 16-bit limits)

_SIZES = [255, 256, 257, 300, 1023, 1024, 1025, 2000, 4096, 5000, 65535, 65536, 70000]


def long_token_line(rng, indent=''):
    """one statement holding a very long token or making a very long physical line"""
    n = rng.choice(_SIZES[:10] if rng.random() < .985 else _SIZES)
    k = rng.randrange(10)
    if k == 0:
        return indent + 'x = "' + 'a' * n + '"\n'
    if k == 1:      # triple-quoted over many lines
        w = rng.choice([40, 70, 120])
        body = '\n'.join('l' * w for _ in range(n // w + 1))
        return indent + 's = """' + body + '"""\n'
    if k == 2:
        return indent + '# ' + 'c' * n + '\n'
    if k == 3:
        return indent + 'n' * n + ' = 1\n'
    if k == 4:
        return indent + 'x = ' + '1' * n + '\n'
    if k == 5:      # f-string text running to the end of a long physical line
        return indent + 'f = f"""' + 't' * n + '\n{x}' + 'u' * (n // 2) + '\nend"""\n'
    if k == 6:
        return indent + "g = f'" + 'a' * n + "\\\n" + 'b' * 10 + "{y}'\n"
    if k == 7:
        return indent + 'x = [' + ', '.join(['1'] * (n // 3)) + ']\n'
    if k == 8:
        return indent + 'x = 1' + ' ' * n + '# trailing\n'
    return indent + 'x = (' + ' + '.join(['a'] * (n // 4)) + ')\n'


def inflate(lines, rng):
    """insert one long-token statement at a line boundary with the indentation of the following line"""
    lines = list(lines)
    k = rng.randint(0, len(lines))
    nxt = lines[k] if k < len(lines) else ''
    ind = nxt[:len(nxt) - len(nxt.lstrip(' \t'))] if nxt.strip() else ''
    lines.insert(k, long_token_line(rng, ind))
    return lines


# ---------------------------------------------------------------------------
# structured f-strings: prefix, quote, text / replacement-field parts with layout between all components, cut at a random component
# (an atom soup almost never lines up "open field, line break, blanks, closing quote")

_FS_WS = ['', '', '', ' ', '  ', '\n', '\n    ', '\\\n', '\\\n  ', '\t', '\r', '\r\n', '\x0c', ' \n ', '\\\r\n']
_FS_TEXT = ['', 'a', 'a b', '{{', '}}', '\\n', '\\', '%d', '#', "it's", 'say "hi"', '\\N{DASH}', '\\{', ':', '!', '=', '\xe9', '\x1e', "'" * 3, '"' * 3]
_FS_EXPR = ['a', 'x.y', 'f(1)', 'a[0]', "d['k']", 'd["k"]', 'a + b', '(yield)', 'lambda: 0', 'x := 1', '(x := 1)', '*a', 'a if b else c', '', '1', "'s'", '"s"',
            'not a', 'a, b', '{1: 2}', '{a}', 'a!=b', 'a==b', '\n a', 'a\\\n', '#c', 'await z']
_FS_SPEC = ['', '>10', '.2f', '{w}', '{w}.{p}', '=^30', '>{w:{f}}', 'x}}', '{{', '\n', ' ', '#x', '%Y-%m', '!r', ':']


def fstring_literal(rng, depth=0):
    pre = rng.choice(['f', 'F', 'rf', 'fr', 'Rf', 'fR', 'f', 'f'])
    q = rng.choice(['"', "'", '"' * 3, "'" * 3])
    comps = []
    for _ in range(rng.randint(1, 4)):
        if rng.random() < .4:
            comps.append(rng.choice(_FS_TEXT))
        else:
            e = rng.choice(_FS_EXPR) if depth or rng.random() < .9 else fstring_literal(rng, depth + 1)
            comps += ['{', rng.choice(_FS_WS), e, rng.choice(_FS_WS)]
            if rng.random() < .15:
                comps.append('=')
            if rng.random() < .2:
                comps.append(rng.choice(['!r', '!s', '!a', '!x', '!', '! r']))
            if rng.random() < .35:
                comps += [':', rng.choice(_FS_SPEC)]
            comps += [rng.choice(_FS_WS), '}']
    if rng.random() < .3:
        comps = comps[:rng.randint(0, len(comps))]          # cut: a field stays open, a spec unfinished
    return pre + q + ''.join(comps) + rng.choice(_FS_WS) + (q if rng.random() < .9 else '')


def fstring_program(rng):
    lit = fstring_literal(rng)
    t = rng.choice(['x = %s\n', '%s\n', 'f(%s)\n', 'x = %s', 'x = (%s,\n 1)\n', 'def g():\n    return %s\n', "y = 'a' %s 'b'\n", 'x = %s + 1\n', 'print(%s, %s)\n',
                    'if %s: pass\n', 'x = [%s for a in b]\n', '%s\ny = 1\n'])
    out = t.replace('%s', lit, 1)
    return out.replace('%s', fstring_literal(rng)) if '%s' in out else out


# ---------------------------------------------------------------------------
# look-alikes: identifiers whose NFKC form is a keyword (fullwidth / mathematical letters) where the keyword would stand,
# and keywords of other versions / capitalisations - names, never keywords

_KEYWORDS = ['if', 'else', 'elif', 'for', 'in', 'is', 'not', 'and', 'or', 'def', 'class', 'return', 'import', 'from', 'as', 'with', 'while', 'pass',
             'del', 'lambda', 'try', 'except', 'finally', 'raise', 'yield', 'global', 'nonlocal', 'assert', 'async', 'await', 'None', 'True', 'False',
             'break', 'continue', 'match', 'case', 'type', 'print', 'exec']


def _disguise(word, rng):
    k = rng.randrange(4)
    if k == 0:      # fullwidth
        return ''.join(chr(ord(c) - 0x21 + 0xFF01) if '!' <= c <= '~' else c for c in word)
    if k == 1:      # mathematical bold / sans-serif
        base = rng.choice([0x1D41A, 0x1D5BA, 0x1D68A])
        return ''.join(chr(base + ord(c) - ord('a')) if 'a' <= c <= 'z' else (chr(base - 26 + ord(c) - ord('A')) if 'A' <= c <= 'Z' else c) for c in word)
    if k == 2:      # one letter only
        i = rng.randrange(len(word))
        return word[:i] + chr(ord(word[i]) - 0x21 + 0xFF01) + word[i + 1:]
    return rng.choice([word.upper(), word.capitalize(), word + '́', word[0] + '‍' + word[1:]])


def lookalike(rng, files):
    import re
    base = corpus_slice(rng, files, maxlines=15, inject=(0, 0)) if rng.random() < .7 else rng.choice(RULE_TRIGGERS)
    hits = [m for m in re.finditer(r'\b(%s)\b' % '|'.join(_KEYWORDS), base)]
    if not hits:
        return _disguise(rng.choice(_KEYWORDS), rng) + ' x: pass\n'
    for m in sorted(rng.sample(hits, min(len(hits), rng.choice([1, 1, 2, 3]))), key=lambda m: -m.start()):
        base = base[:m.start()] + _disguise(m.group(0), rng) + base[m.end():]
    return base

# ---------------------------------------------------------------------------
# histories (C04, C20)

def mutate_lines(lines, rng, frags=None):
    frags = frags or (FRAG + FS)
    lines = list(lines)
    for _ in range(rng.randint(1, 5)):
        r = rng.randint(1, 7)
        if not lines:
            lines = ['']
        if r == 1 and len(lines) > 1:
            del lines[rng.randrange(len(lines))]
        elif r == 2:
            lines.insert(rng.randint(0, len(lines)), lines[rng.randrange(len(lines))])
        elif r in (3, 4) and rng.random() < .3:
            k = rng.randint(0, len(lines))
            if rng.random() < .5 and lines:
                lines[min(k, len(lines) - 1)] = template_line(rng)
            else:
                lines.insert(k, template_line(rng))
        elif r in (3, 4):
            i = rng.randrange(len(lines))
            line = lines[i]
            col = rng.randint(0, len(line))
            s = ''.join(rng.choice(frags) if rng.random() < .85 else
                        chr(rng.randint(0, 0x1f if rng.random() < .5 else 0x3000))
                        for _ in range(rng.randint(1, 3)))
            if rng.random() > .5:
                line = line[:col] + s + line[col:]
            else:
                line = ' ' * rng.randint(0, 12) + s + '\n'
            lines[i] = line
        elif r == 5:
            a = rng.randrange(len(lines))
            b = min(len(lines), a + rng.randint(1, 6))
            if rng.random() < .5:
                del lines[a:b]
            else:
                ind = rng.random() < .5
                for j in range(a, b):
                    if ind:
                        lines[j] = '    ' + lines[j]
                    elif lines[j].startswith('    '):
                        lines[j] = lines[j][4:]
        elif r == 6:
            # move a block
            a = rng.randrange(len(lines))
            b = min(len(lines), a + rng.randint(1, 5))
            blk = lines[a:b]
            del lines[a:b]
            k = rng.randint(0, len(lines))
            lines[k:k] = blk
        else:
            k = rng.random()
            if k < .3 and lines:
                lines[0] = lines[0][1:] if lines[0].startswith('\ufeff') else '\ufeff' + lines[0]
            elif k < .6 and lines:
                last = lines[-1]
                lines[-1] = last.rstrip('\r\n') if last.endswith(('\n', '\r')) else last + '\n'
            elif lines:
                i = rng.randrange(len(lines))
                lines[i] = lines[i].rstrip('\r\n') + rng.choice(['\r\n', '\r', '\n', ''])
    return split_keep(''.join(lines))
