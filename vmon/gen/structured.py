"""Structured programs: statement-level templates (valid and broken) with real block structure.
They exercise the diff parser's copy conditions (one-line suites ending in errors, decorators, async,
flows split at block ends) far more often than real files or token soup do."""

HEADERS = ['def f(a, b=1):', 'async def g(x):', 'class A:', 'class B(A, metaclass=M):', 'if x:', 'elif y:', 'else:', 'for i in j:',
           'async for i in j:', 'while x:', 'try:', 'except E as e:', 'except:', 'finally:', 'with a as b:', 'async with a:',
           '@decorator', '@a.b(c)', 'def __init__(self):', 'if (a and', 'def h(', 'class C(', 'lambda:', 'match x:', 'case 1:',
           '@d\nasync def k(z):', '@d1\n@d2(x)\nasync def m():', '@d\nclass D:', '@d\ndef n():', 'async def p():', '@staticmethod\nasync def q(self):']
ONELINERS = ['pass', 'x = 1', 'return x', 'return self.', 'await -', 'yield', 'x = (', 'foo(a,', ')', ']', 'import os', 'from a import (b,',
             'x = [1, 2', 'raise E', 'break', 'continue', 'del x', 'global g', 'nonlocal n', 'assert x, y', 'x: int = 1', 'print(x)',
             'self.x = y', 'f"{x}"', 'f"{x', '"' * 3 + 'doc' + '"' * 3, '"' * 3 + 'open', "'" * 3, 'x = ' + '"' * 3 + 'a', 'b' + '"' * 3,
             '# comment', '', 'x = 1 \\', 'lambda: 0', 'a.b.c()', 'x +', '1 +', '.', 'def', 'class', 'if', 'else', 'x = {', '}',
             'a = b = c', '*a, b = c', 'async', 'await x', '\\', 'x = 1;', 'x = 1; y = 2', 'if x: pass', 'for i in j: pass',
             'while 1: break', 'def k(): pass', 'async def m(): return self.', 'async def m(): await -', 'def n(): return (',
             'class D: x = 1', 'class E: x = (', 'try: pass', 'with a: b', 'else: pass', 'elif z: pass', 'except: pass', 'finally: pass',
             '@d', 'if x: y = (', 'for a in b: c.', 'while x: yield (', 'lambda x: (', 'x = "unterminated', "y = 'unterminated"]


def structured_program(rng, nlines=None):
    nlines = nlines or rng.randint(2, 40)
    out = []
    level = 0
    for _ in range(nlines):
        r = rng.random()
        ind = '    ' * level
        if rng.random() < .04:
            ind = ' ' * rng.randint(0, 4 * level + 3)      # a wrong indentation now and then
        if r < .28:
            h = rng.choice(HEADERS)
            if rng.random() < .2:
                out.append(ind + h.replace('\n', '\n' + ind) + ' ' + rng.choice(ONELINERS) + '\n')      # one-line suite
            else:
                out.append(ind + h.replace('\n', '\n' + ind) + '\n')
                if h.endswith(':') and not h.split('\n')[-1].startswith('@'):
                    level = min(level + 1, 6)
        else:
            out.append(ind + rng.choice(ONELINERS) + '\n')
            if rng.random() < .25 and level:
                level -= rng.randint(1, level)
        if rng.random() < .08:
            out.append('\n')
    if rng.random() < .15 and out:
        out[-1] = out[-1].rstrip('\n')
    return ''.join(out)


def template_line(rng):
    ind = '    ' * rng.randint(0, 3)
    r = rng.random()
    if r < .4:
        return ind + rng.choice(HEADERS) + '\n'
    if r < .55:
        return ind + rng.choice(HEADERS) + ' ' + rng.choice(ONELINERS) + '\n'
    return ind + rng.choice(ONELINERS) + '\n'
