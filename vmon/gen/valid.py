"""Workload of *valid* programs for the reference-model properties (C10 C12 C14):
standard-library files, top-level blocks of them, token-level mutations, semantic snippets and
grammar derivations -- always filtered by the reference CPython's compile()."""
import random
import re

from . import text as G

# programs that exercise the semantic rules while being valid somewhere in 3.6-3.13
VALID_SNIPPETS = [
    'run(app, debug=__debug__)\n', 'class C(B, k=__debug__): pass\n', 'x = dict(strict=__debug__)\n', 'def f(a=__debug__): return a\n',
    # format specs that begin with '=' (sign-aware padding): ':=' inside a replacement field is ':' + spec, never the walrus operator
    'title = f"{name:=^30}"\n', 'f"{total:=+8}|"\n', "s = f'{x:=10}' + f'{v:={w}d}'\n", 'f"{a:{b:=3}}"\n', "print(f'{x:=>{width}}', f'{(y := 1)}')\n",
    # starred targets whose operand is no plain name; the only yield of a function inside an f-string field
    'first, *self.rest = items\n', 'head, *(mid, last) = items\n', 'for key, *obj.values in rows: pass\n', '*a[0], b = c\n', '[*a.b] = c\n',
    'a, *[b, c] = d\n', 'with x as (a, *b.c): pass\n', '[x for a, *b.c in d]\n', 'a, *(b, *c.d) = e\n', 'for *a[i], b in c: pass\n',
    "def f():\n    return f'{(yield)}'\n", "def f(y):\n    return f'y:{yield y*2}'\n", "async def f():\n    x = f'{a:{(yield)}}'\n",
    "def f():\n    x = 'a' f'{(yield from g())}' 'b'\n", "def f():\n    return f'yield'\n", "def f():\n    return f'{lambda: (yield)}'\n",
    "def f():\n    return f'{x!r:{(yield)}}'\n", "def f():\n    return [f'{(yield)}']\n",
    'async def f():\n    return [(y := x) async for x in z]\n',
    'async def f():\n    return [x async for x in z if (y := x)]\n', 'from __future__ import barry_as_FLUFL\n',
    'def f():\n    global x\n    x = 1\n', 'def f():\n    x = 1\n    def g():\n        nonlocal x\n        x = 2\n    return g\n',
    'class A:\n    def f(self):\n        nonlocal_ = 1\n        return __class__\n',
    'class A:\n    def f(self):\n        def g():\n            nonlocal __class__\n        return g\n',
    'def f():\n    import a.b\n    global b\n', 'def f():\n    import a.b as c\n    global b\n',
    'def f():\n    from a import b as c\n    global b\n',
    'x = lambda: (yield)\n', 'f = lambda: (yield 1)\n', 'g = [lambda: (yield) for _ in ()]\n',
    'async def f():\n    return [x async for x in y]\n', 'async def f():\n    return {x: y async for x, y in z}\n',
    'async def f():\n    await g()\n    async with a as b, c:\n        pass\n    async for i in j:\n        pass\n    else:\n        pass\n',
    'def f():\n    return (x async for x in y)\n', 'def f():\n    return (await x for x in y)\n',
    'async def f():\n    yield 1\n', 'async def f():\n    x = yield\n    await x\n',
    ', '.join('a%d' % i for i in range(130)) + ', *rest = values\n', '(' + ', '.join('a%d' % i for i in range(250)) + ', *rest) = values\n',
    '[' + ', '.join('a%d' % i for i in range(200)) + ', *rest, z] = values\n', 'a, *b = c\n', '*a, = b\n', '[*a, b] = c\n', 'for a, *b in c: pass\n', 'a, b = *c, d\n', 'print(*a, *b, **c, **d)\n',
    'f(*a, b, *c, d=1, **e)\n', 'f(a, *b, c=1, *d, **e)\n', 'f(x for x in y)\n', 'f(a, (x for x in y))\n', 'f(**a, b=1)\n',
    'f(a := 1)\n', 'f(a := 1, b)\n', 'print(y := f(x), y**2)\n', 'g(n := 1, n := 2)\n', 'f(a := 1, *b, c=2, **d)\n', 'f((a := 1), b=(c := 2))\n',
    '[(i := 1) for [a, b] in x]\n', '[(y := f(k)) for d[k] in pairs]\n', '[(n := len(rest)) for first, *rest in rows]\n', '[(i := 1) for (a, b) in x]\n',
    '{(j := k) for k, in y}\n', '[(i := 1) for a.b in x]\n',
    'x[a := 1]\n', 'x[a := 1, b]\n', 'f(*a, b := 2)\n', 'if (n := len(a)) > 1: pass\n', '[y := f(x), y**2]\n', 'x = (y := 1) + y\n',
    'while chunk := f.read(1):\n    pass\n', '[(z := x) for x in y if (w := x)]\n', 'def f(a, b=(c := 1)): pass\n',
    'x: int = 1\n', 'x: int\n', 'x.y: int = 1\n', 'x[0]: int\n', '(x): int = 1\n', 'class A:\n    x: int = 1\n    y: "str"\n',
    'def f(a: int = 1, *b: x, c: y = 2, **d: z) -> w: pass\n', 'def f(a, /, b, *, c): pass\n', 'def f(a=1, /, b=2): pass\n',
    'lambda a, /, b: 0\n', 'lambda *, a: 0\n', 'lambda *a, **k: 0\n', 'lambda a=1, *b, c, d=2, **e: 0\n', 'def f(*, a=1, b): pass\n',
    'x += 1\n', 'x.y -= 1\n', 'x[0] *= 2\n', 'x @= y\n', 'x //= 2; x **= 2; x >>= 1; x <<= 1; x &= 1; x ^= 1; x |= 1; x %= 1\n',
    'del a\n', 'del a, b\n', 'del (a, b)\n', 'del [a, b]\n', 'del a.b, c[0], d[1:2]\n', 'del (a), (b.c)\n', 'del ((a, b), c)\n',
    'with a as b: pass\n', 'with a as (b, c): pass\n', 'with a as [b, c]: pass\n', 'with a as b.c: pass\n', 'with a as b[0]: pass\n',
    'with a, b as c: pass\n', 'with (a as b, c as d): pass\n', 'with (a, b): pass\n', 'with (a as b): pass\n', 'with (a): pass\n',
    'for a.b in c: pass\n', 'for a[0] in c: pass\n', 'for (a, b) in c: pass\n', 'for [a, b] in c: pass\n', 'for a, in c: pass\n',
    'try:\n    pass\nexcept A as e:\n    pass\nexcept (B, C):\n    pass\nexcept:\n    pass\nelse:\n    pass\nfinally:\n    pass\n',
    'try:\n    pass\nexcept* A as e:\n    pass\nexcept* (B, C):\n    pass\n', 'try:\n    pass\nfinally:\n    pass\n',
    'for x in y:\n    try:\n        pass\n    finally:\n        continue\n', 'while 1:\n    try:\n        break\n    finally:\n        pass\n',
    'for x in y:\n    if x: continue\n    else: break\nelse:\n    pass\n', 'def f():\n    for x in y:\n        def g():\n            return 1\n        break\n',
    'from __future__.a import b\n', '"""doc"""\nfrom __future__.x import y as z\n', 'raw = b"\\N{foo}"\n', 'raw = b"\\u12 \\U0011"\n',
    'from __future__ import annotations\n', 'from __future__ import division, print_function\nx = 1\n',
    '"""doc"""\nfrom __future__ import generators\nfrom __future__ import with_statement\nimport os\n',
    'from __future__ import (absolute_import, unicode_literals,)\n', 'from __future__ import nested_scopes as ns\n',
    'import a as b, c\n', 'import numpy as np, os\n', 'import a.b as c, d.e\n', 'import a, b as c, d\n', 'def f():\n    import x as y, z\n    return y, z\n',
    'from . import a\n', 'from .. import a as b\n', 'from .a.b import (c, d as e,)\n', 'from ...a import *\n', 'import a.b.c, d as e, f.g as h\n',
    'def f(): return f"yield"\n', 'def f():\n    x = f"return"\n    raise E(f"raise")\n', 'def g(): return f"{x} yield"\n', 'def h(): return F\'yield\'\n',
    'def f():\n    return\n    yield\n', 'def f():\n    yield from g()\n    return 1\n', 'def f():\n    x = yield from g()\n', 'def f():\n    await_ = yield\n',
    'class A(B, metaclass=C, **kw):\n    pass\n', 'class A():\n    def f(self): return super().f()\n', '@a.b(c)\n@d\nclass A: pass\n',
    '@a[0]\ndef f(): pass\n', '@(x := y)\ndef f(): pass\n', '@a if b else c\ndef f(): pass\n', '@lambda f: f\ndef g(): pass\n',
    'f"{x}"\n', 'f"{x!r:>{w}}"\n', 'f"{x!s}{y!a}"\n', 'f"{{}}"\n', 'f"{x:{y}}"\n', 'f"{x:{y:{z}}}"\n' if False else 'f"{x:{y}.{z}}"\n',
    'f"{x=}"\n', 'f"{x = }"\n', 'f"{x=!r:^20}"\n', 'f"{a[\'b\']}"\n', "f'{a[\"b\"]}'\n", 'f"{(lambda x: 1)(2)}"\n', 'f"{ {1: 2}[1] }"\n',
    'f"""\n{x\n}"""\n', 'f"{x:%Y-%m}"\n', 'f"{3.14:10.10}"\n', 'f"a" "b" f"{c}"\n', 'rf"\\d{x}"\n', 'fr"\\{x}"\n' if False else 'fr"{x}\\d"\n',
    'rf"\\{x}"\n', 'Rf"\\{6}"\n', 'f"{x!r}"[0]\n', 'f"{f\'{x}\'}"\n', 'f"{yield_}"\n', 'f"{x:{\'a\'}>10}"\n', 'f"{x,}"\n', 'f"{*a,}"\n',
    "f'{a[\"b\"]:{c}}'\n", 'f"\\N{DASH}{x}"\n', 'f"{x}\\n"\n', 'F"{x}" f\'{y}\'\n', 'f"{a}{b}{c}"\n', 'f"{1:{2:{3}}}"\n',
    'f"{\'\\n\'}"\n', 'f"{x # c\n}"\n', 'f"{f"{y}"}"\n', "f'{x!r:{'>'}{10}}'\n", 'f"{a["b"]}"\n',
    'b"\\xff" b"a"\n', '"a" "b" \'c\'\n', 'u"a"\n', 'br"\\d"\n', 'Rb"x"\n', 'x = 0o17 + 0b1 + 0x1F + 1_000 + 1e1_0 + 1_0.0_1j\n', '1if 1else 0\n',
    'x = 1 if y else 2\n', 'x = [a for a in b if c if d for e in f]\n', 'x = {a: b for a, b in c}\n', 'x = {*a, *b}\n', 'x = {**a, "b": 1, **c}\n',
    'x = a[1:2, ::3, ...]\n', 'x = a[b, c]\n', 'x = a[*b]\n', 'x = a[b:=1]\n' if False else 'x = a[(b:=1)]\n', 'x = -a ** -b\n', 'x = not a is not b not in c\n',
    'x = a < b > c == d != e >= f <= g\n', 'x = a if b else c if d else e\n', 'x = lambda: lambda: 0\n', 'x = await_\n', 'print = 1\nexec = 2\n',
    'match = 1\ncase = 2\ntype = 3\n_ = match + case + type\n', 'match x:\n    case 1: pass\n', 'match x, y:\n    case [a, *b] | (a, b): pass\n    case {"k": v, **r}: pass\n    case A(b=c) | D(): pass\n    case _: pass\n',
    'match x:\n    case str() | None: pass\n    case -1 | 1.5 | 2j | 1+2j: pass\n    case a.b if c: pass\n    case (a) as b: pass\n',
    'type X = int\n', 'type X[T] = list[T]\n', 'def f[T: int, *Ts, **P](a: T) -> T: pass\n', 'class A[T](B): pass\n', 'type X[T: (int, str)] = T\n',
    'async = 1\nawait = 2\n', 'def f(async, await): pass\n', 'x = a @ b\n', 'x = a if b else(c)\n', 'assert a, b\n', 'assert (a, b)\n',
    'raise A from b\n', 'raise\n', 'global_ = 1\n', 'if 1:\n    pass\nelif 2:\n    pass\nelse:\n    pass\n', 'while 1: pass\nelse: pass\n',
    'x = (\n    1,\n    2,\n)\n', 'x = [\n    1,\n\n    2]\n', 'x = 1 \\\n    + 2\n', 'if 1:\n\tpass\n', 'if 1:\n        pass\n', 'x = 1;\n', 'x = 1; y = 2\n',
    'class A: pass\n', 'def f(): pass\n', 'x = ...\n', 'x = None\nTrue\nFalse\n', '__debug__\n', 'x = __debug__\n', 'def f(): return __debug__\n',
    '# -*- coding: utf-8 -*-\nx = "é"\n', '\x0cx = 1\n', 'x = 1\x0c\n', 'if 1:\n    x = 1\n\x0c\n    y = 2\n', 'x = 1 # c\n', 'x = 1\n\n\n', 'x = 1',
    'é = 1\n', 'x = "\\N{BULLET}"\n', 'x = b"\\x00"\n', 'x = "\\u1234\\U00012345\\x41\\101\\n"\n', 'def f(x):\n    """doc"""\n',
    'class A:\n    """doc"""\n    x = 1\n', 'def f():\n    "a" "b"\n', 'def f():\n    ("doc")\n', 'def f():\n    f"doc"\n', 'def f():\n    b"doc"\n',
    '"""module doc"""\n', "'''doc'''; x = 1\n", 'def f(): "doc"\n', 'def f():\n    r"doc"\n    return 1\n',
]


def top_blocks(text):
    """top-level statement blocks of a program (heuristic; the compile filter decides)"""
    lines = G.split_keep(text)
    blocks, cur = [], []
    for l in lines:
        if l[:1] not in ' \t\r\n\f#)]}' and not l.startswith(('else', 'elif', 'except', 'finally')) and cur \
                and not cur[-1].rstrip('\r\n').endswith(('\\', ',', '(', '[', '{')) \
                and not (cur[-1].startswith('@') and len(cur) == 1):
            blocks.append(''.join(cur))
            cur = []
        cur.append(l)
    if cur:
        blocks.append(''.join(cur))
    return blocks


_MUTS = [
    (re.compile(r'(?<![=!<>+\-*/%&|^@:])=(?!=)'), [':=', '==', '+=', '= *', ': int =']),
    (re.compile(r'\+'), ['-', '*', '@', '**', '//', '+ -', '+ ~', ' if x else ']),
    (re.compile(r'=='), ['!=', '<=', 'is', 'is not', 'not in', '<']),
    (re.compile(r'\b(\d+)\b'), ['0x1F', '1_000', '1e3', '2j', '0o7', '0b1', '1.', '.5', '1_0.0_1', '0']),
    (re.compile(r'(?<![A-Za-z0-9_"\'])(["\'])'), ['r\\1', 'b\\1', 'f\\1', 'rb\\1', 'u\\1', 'F\\1', 'fr\\1', 'Rb\\1']),
    (re.compile(r'\b([a-z_][a-z0-9_]*)\b(?=\s*[,)\]])'), ['(\\1)', '*\\1', '**\\1', '\\1=1', '\\1 := 1', '(\\1 := 1)', 'await \\1', 'lambda: \\1',
                                                         '\\1 for \\1 in \\1', 'é', '\\1: int', 'yield \\1', '*\\1, \\1']),
    (re.compile(r'\bdef\b'), ['async def']),
    (re.compile(r'\bfor\b'), ['async for']),
    (re.compile(r'\bwith\b'), ['async with']),
    (re.compile(r'\breturn\b'), ['yield', 'return await', 'yield from', 'raise', 'del', 'return *', 'assert', 'global', 'nonlocal']),
    (re.compile(r'\bpass\b'), ['continue', 'break', 'return', 'yield', '...', 'import a.b', 'global x', 'nonlocal x', 'x: int', 'await x',
                               'from __future__ import annotations', 'del x', 'x = yield', 'return 1', 'raise', '__debug__']),
    (re.compile(r'\bimport (\w+)'), ['import \\1.a', 'import \\1 as b', 'import \\1 as b_, c_', 'import x_ as y_, \\1', 'from \\1 import *', 'from . import \\1', 'from .\\1 import (a, b,)']),
    (re.compile(r','), [', *', ', **', ',\n    ', ', /,', ', *,', ',)' if False else ' ,']),
    (re.compile(r'\('), ['(*', '(**', '(\n', '( ', '((', '(x for x in ', '(lambda: ']),
    (re.compile(r':\s*$', re.M), [': pass', ':  # c', ': \\\n']),
    (re.compile(r'\n'), ['\r\n', '\r', '\n\n', '  # c\n', '\n\x0c', ';\n', ' \\\n', '\n# c\n']),
    (re.compile(r'^( +)', re.M), ['\t', '\\1 ', '  ', '\\1\\1']),
    (re.compile(r'\{'), ['{*', '{**', '{ ']),
    (re.compile(r'\bself\b'), ['match', 'case', 'type', 'async_', 'print', 'exec', 'µ', 'self_']),
    (re.compile(r'\bin\b'), ['not in', 'in *', 'in (yield)']),
    (re.compile(r'\[([^\[\]\n]*)\]'), ['[\\1,]', '[*\\1]', '[\\1:]', '[::\\1]', '[\\1, ...]', '[\\1 for _ in ()]']),
]


def mutate(prog, rng, n=None):
    for _ in range(n or rng.randint(1, 3)):
        rx, reps = rng.choice(_MUTS)
        ms = list(rx.finditer(prog))
        if not ms:
            continue
        m = rng.choice(ms)
        try:
            rep = m.expand(rng.choice(reps))
        except Exception:
            continue
        prog = prog[:m.start()] + rep + prog[m.end():]
    return prog



# ---------------------------------------------------------------------------
# compositional generators: binding targets in every binding context; yield/await at every expression position

def _target(rng, depth=0, star_ok=True):
    r = rng.random()
    if depth > 2 or r < .35:
        return rng.choice(['a', 'b', 'x', 'self', '_', 'é'])
    if r < .5:
        return _target(rng, depth + 1, False) + rng.choice(['.attr', '.a.b', '[0]', '[i, j]', '[1:2]', '().z', '(k)[0]'])
    if r < .6 and star_ok:
        return '*' + _target(rng, depth + 1, False)
    elems = [_target(rng, depth + 1, True) for _ in range(rng.randint(1, 3))]
    if sum(e.startswith('*') for e in elems) > 1:
        elems = [e.lstrip('*') if k else e for k, e in enumerate(elems)]
    body = ', '.join(elems) + (',' if len(elems) == 1 or rng.random() < .2 else '')
    return rng.choice(['(%s)', '[%s]', '(%s)', '%s' if depth == 0 else '(%s)']) % body


def target_program(rng):
    """one binding statement around a composed target (most compile; the reference decides)"""
    t = _target(rng)
    plain = t.lstrip('*') if t.startswith('*') else t
    forms = ['%s = value\n' % (t + ',' if t.startswith('*') else t), 'p = %s = value\n' % plain, 'for %s in rows:\n    pass\n' % (t + ',' if t.startswith('*') else t),
             'with ctx as %s:\n    pass\n' % plain, 'with (c1 as %s, c2 as q):\n    pass\n' % plain, 'r = [0 for %s in rows]\n' % (t + ',' if t.startswith('*') else t),
             'r = {k: 0 for k, %s in rows}\n' % plain, 'del %s\n' % plain, 'async def f():\n    async for %s in rows:\n        pass\n' % plain,
             'async def f():\n    async with ctx as %s:\n        pass\n' % plain, 'def f():\n    return (0 for %s in rows if a)\n' % plain,
             'try:\n    pass\nexcept E as %s:\n    pass\n' % rng.choice(['a', 'err']), '%s += 1\n' % rng.choice(['a', 'a.b', 'a[0]', 'a.b[c].d']),
             '%s: int = 1\n' % rng.choice(['a', 'a.b', 'a[0]', '(a)', '(a.b)']), 'match value:\n    case %s:\n        pass\n' % rng.choice(['[a, *b]', '{"k": a, **b}', 'A(b=c) | D()', 'a as b', '(a, b) if a else c']) ]
    s = rng.choice(forms)
    if rng.random() < .3:
        s = rng.choice(['def g():\n', 'class K:\n', 'async def g():\n']) + ''.join('    ' + l for l in s.splitlines(True))
    return s


_YIELD_FORMS = ['(yield)', '(yield 1)', '(yield from g())', '(await h())']
_HOLES = ['x = %s\n', 'return %s\n', "s = f'{%s}'\n", "s = f'a{b:{%s}}c'\n", "s = 't' f'{%s!r}' 'u'\n", 'k = lambda: %s\n', 'k = [%s for i in j]\n', 'k = [i for i in %s]\n',
          'def inner(a=%s):\n    pass\n', 'def inner():\n    return %s\n', 'class Inner:\n    z = %s\n', '@deco(%s)\ndef inner():\n    pass\n', 'class Inner(%s):\n    pass\n',
          'def inner() -> %s:\n    pass\n', 'def inner(a: %s):\n    pass\n', 'h(%s, k=%s)\n', 'x[%s] = 1\n', 'del x[%s]\n', 'assert %s, m\n', 'raise E(%s)\n',
          'with %s as w:\n    pass\n', 'for i in %s:\n    pass\n', 'if %s:\n    pass\nelif c:\n    pass\n', 'while %s:\n    break\n', 'x = y if %s else z\n',
          'x = {%s: 1}\n', 'x = {1: %s}\n', 'x = (%s,)\n', 'x = [*%s]\n', 'print(*%s)\n', 'x = not %s\n', 'x = -%s\n', 'x = a < %s < b\n', '(z := %s)\n',
          'try:\n    pass\nexcept %s:\n    pass\n', 'k = lambda a=%s: a\n', 'x: %s = 1\n', 'x: int = %s\n', 'match %s:\n    case _:\n        pass\n', 'type T = %s\n']


def yield_program(rng):
    """a function with yield/await expressions at one or two expression positions (or none), CPython decides what it is"""
    n = rng.choice([0, 1, 1, 1, 2])
    body = []
    for _ in range(rng.randint(1, 3)):
        hole = rng.choice(_HOLES)
        fill = rng.choice(_YIELD_FORMS) if n > 0 and rng.random() < .7 else rng.choice(['v', '(w)', "'yield'", "f'yield'", 'await_', 'yield_'])
        if fill in _YIELD_FORMS:
            n -= 1
        body.append(hole.replace('%s', fill))
    if rng.random() < .3:
        body.insert(rng.randint(0, len(body)), rng.choice(['yield\n', 'yield v\n', 'return\n', 'return v\n', 'raise\n', 'raise E from v\n', 'pass\n']))
    head = rng.choice(['def f(p):\n', 'async def f(p):\n', 'def f(p):\n', 'class K:\n    def m(self):\n'])
    ind = '        ' if head.startswith('class') else '    '
    return head + ''.join(ind + l for stmt in body for l in stmt.splitlines(True))



_SPECIAL_NAMES = ['__debug__', '__class__', '__name__', '__file__', 'print', 'exec', 'match', 'case', 'type', '_', 'async_', 'self', 'None', 'True', 'Ellipsis',
                  'NotImplemented', '__builtins__', 'nonlocal_', 'await_']
_USES = ['run(app, debug=%s)\n', 'class C(B, k=%s): pass\n', 'x = dict(strict=%s)\n', 'def f(a=%s): pass\n', 'def f(*, k=%s): pass\n', 'x = y[%s]\n', 'x = %s.attr\n',
         'x = a if %s else b\n', 'assert %s, msg\n', 'if %s: pass\n', 'while not %s: break\n', 'x = [%s for i in j]\n', 'x = [i for i in %s]\n', '@deco(%s)\ndef f(): pass\n',
         'x = f"{%s}"\n', 'x = lambda: %s\n', 'x = lambda k=%s: k\n', 'return_ = (%s, 1)\n', 'x = {%s: 1}\n', 'x = {"k": %s}\n', 'f(*%s)\n', 'f(**%s)\n', 'x = -%s\n',
         'x = %s < 1 <= %s\n', 'x = %s is not None\n', 'with ctx(%s): pass\n', 'for i in %s: pass\n', 'raise E(%s)\n', 'del d[%s]\n', 'x: %s = 1\n', 'def f() -> %s: pass\n',
         'print(%s, sep=%s)\n', 'x = (yield_ := %s)\n', 'try: pass\nexcept %s: pass\n', 'x = %s if %s else %s\n', 'f(k=not %s)\n', 'f(k=%s and y)\n', 'f(%s)\n']


def use_program(rng):
    """special names (dunder constants, soft keywords, former keywords) in every *reading* position"""
    n = rng.choice(_SPECIAL_NAMES)
    s = rng.choice(_USES).replace('%s', n)
    if rng.random() < .3:
        s = rng.choice(['def g():\n', 'class K:\n', 'async def g():\n', 'if x:\n']) + ''.join('    ' + l for l in s.splitlines(True))
    return s


def candidates(rng, files, deriver=None):
    """endless stream of candidate programs (origin, text); most compile, the filter decides"""
    while True:
        r = rng.random()
        if rng.random() < .2:
            yield 'lexical', lexical_program(rng)
            continue
        if rng.random() < .12:
            yield 'targets', target_program(rng)
            continue
        if rng.random() < .12:
            yield 'yields', yield_program(rng)
            continue
        if rng.random() < .08:
            yield 'uses', use_program(rng)
            continue
        if r < .25:
            s = rng.choice(VALID_SNIPPETS)
            if rng.random() < .5:
                yield 'snippet', s
            else:
                yield 'snippet+mut', mutate(s, rng)
        elif r < .35:
            parts = [rng.choice(VALID_SNIPPETS) for _ in range(rng.randint(2, 4))]
            if rng.random() < .4:
                k = rng.randrange(len(parts))
                parts[k] = rng.choice(['def f():\n', 'class A:\n', 'async def f():\n', 'if x:\n', 'for x in y:\n', 'while x:\n', 'with x:\n', 'try:\n']) \
                    + ''.join('    ' + l for l in G.split_keep(parts[k]) if l) + \
                    ('except A:\n    pass\n' if False else '')
                if parts[k].startswith('try:'):
                    parts[k] += 'finally:\n    pass\n'
            yield 'snippets', ''.join(p if p.endswith('\n') else p + '\n' for p in parts)
        elif r < .5 and deriver is not None:
            yield 'derive', deriver(rng)
        else:
            t = G.file_text(rng.choice(files))
            if not t:
                continue
            bl = top_blocks(t)
            if not bl:
                continue
            a = rng.randrange(len(bl))
            prog = ''.join(bl[a:a + rng.randint(1, 4)])
            if len(prog) > 6000:
                continue
            if rng.random() < .6:
                yield 'blocks+mut', mutate(prog, rng)
            else:
                yield 'blocks', prog


# ---------------------------------------------------------------------------
# lexical workload: literals spelled from the lexical grammar (numbers, strings), valid ones kept by compile()

def _digits(rng, allow_leading_zero=True, n=None):
    n = n or rng.randint(1, 4)
    ds = [rng.choice('0123456789') for _ in range(n)]
    if not allow_leading_zero and ds[0] == '0' and n > 1:
        ds[0] = rng.choice('123456789')
    out = ds[0]
    for d in ds[1:]:
        out += ('_' if rng.random() < .2 else '') + d
    return out


def number_literal(rng):
    r = rng.random()
    if r < .12:
        return rng.choice(['0', '00', '0_0', '000', '7', '42', '1_000', '1__0', '0_', '_1', '1_'])
    if r < .24:
        p, ds = rng.choice([('0x', '0123456789abcdefABCDEF'), ('0X', '0123456789abcdef'), ('0o', '01234567'), ('0O', '01234567'),
                            ('0b', '01'), ('0B', '01'), ('0b', '012'), ('0o', '0189')])
        body = ''.join(rng.choice(ds) + ('_' if rng.random() < .15 else '') for _ in range(rng.randint(1, 5)))
        return p + ('_' if rng.random() < .1 else '') + body.rstrip('_') + ('_' if rng.random() < .03 else '')
    if r < .4:
        return _digits(rng, allow_leading_zero=rng.random() < .3)
    # float / imaginary
    ip = _digits(rng) if rng.random() < .8 else ''
    fp = ''
    if rng.random() < .6:
        fp = '.' + (_digits(rng) if (rng.random() < .8 or not ip) else '')
    ex = ''
    if rng.random() < .4:
        ex = rng.choice('eE') + rng.choice(['', '+', '-']) + (_digits(rng) if rng.random() < .95 else '')
    j = rng.choice('jJ') if rng.random() < .45 else ''
    s = ip + fp + ex + j
    return s or '0'


_SPFX = ['', '', '', 'r', 'R', 'u', 'U', 'b', 'B', 'br', 'Br', 'bR', 'BR', 'rb', 'rB', 'Rb', 'RB', 'f', 'F', 'fr', 'Fr', 'fR', 'FR', 'rf', 'rF', 'Rf', 'RF',
         'ur', 'bu', 'fb', 'rr']
_SBODY = ['a', ' ', '%s', '"', "'", '\\"', "\\'", '\\\\', '\\n', '\\\n', '\\\r\n', '\\x41', '\\N{DASH}', '\\u1234', '{x}', '{{', '}}', '{x!r:>{w}}', '#', 'é',
          '\\', '\n', '\t', '\\0', '\\400', '\\8', '""', "''", '{', '}', '\\{', ':', '=',
          # characters str.splitlines() treats as line breaks but Python source does not
          '\x1c', '\x1d', '\x1e', '\x85', '\u2028', '\u2029', '\x0b', '\x0c']


def string_literal(rng):
    p = rng.choice(_SPFX)
    q = rng.choice(['"', "'", '"""', "'''"])
    if len(q) == 1 and rng.random() < .15:
        # a one-line string continued with backslash-newline whose text begins with (or soon has) the other kind of quote
        o = "'" if q == '"' else '"'
        head = rng.choice([o, o + '%s' + o + ' is ', 'a' + o, o + o, '', 'x', o + ' '])
        nl = rng.choice(['\\\n', '\\\n', '\\\r\n', '\\\r'])
        return rng.choice(['', '', 'r', 'b', 'u', 'rb', 'f', 'Rb', 'BR']) + q + head + rng.choice(['', 'b', ' c ']) + nl + rng.choice(['', 'd', o, '  e']) + q
    n = rng.randint(0, 5)
    body = ''.join(rng.choice(_SBODY) for _ in range(n))
    return p + q + body + q


_ID_START = ['a', 'Z', '_', 'x', '\xe9', '\xb5', '\xaa', '\u03bb', '\u4e2d', '\u2118', '\u212e', '\u0646', '\U0001d431', '\U00020000', '\U00010400', '\U0001d7ce',
             '\u1885', '\ufb01', '\u2160']
_ID_CONT = ['b', '1', '_', '9', '\u0301', '\xb7', '\u203f', '\u0663', '\U0001d7d8', '\U000e0100', '\u4e2d', '\xe9', '\U00020000', '\u0387', '\u1369', 'y']


def identifier(rng):
    """identifiers from every corner of PEP 3131 (ID_Start / ID_Continue incl. Other_ID_*, non-BMP letters and digits, NFKC-folding
    characters); a few are invalid on purpose (a digit or a mark first) - the reference interpreter decides"""
    s = rng.choice(_ID_START if rng.random() < .93 else _ID_CONT)
    for _ in range(rng.choice([0, 0, 1, 1, 2, 4])):
        s += rng.choice(_ID_CONT if rng.random() < .7 else _ID_START)
    return s


_ID_TMPL = ['%s = 1\n', 'def %s(): pass\n', 'class %s: pass\n', 'import %s\n', 'x.%s\n', 'f(%s=1)\n', 'from a import %s\n', 'import a as %s\n', 'lambda %s: 0\n',
            'def f(%s, *, k): pass\n', 'for %s in y: pass\n', 'x = %s\n', 'x = [%s for %s in y]\n', 'del %s\n', 'with a as %s: pass\n', '(%s := 1)\n', 'x = a if %s else b\n',
            'def f():\n    global %s\n', '@%s\ndef f(): pass\n', 'x = %s.%s\n', 'x = f"{%s}"\n', 'try: pass\nexcept E as %s: pass\n', 'x = 1if %s else 2\n']


def lexical_program(rng):
    lines = []
    for _ in range(rng.randint(1, 5)):
        r = rng.random()
        if r < .2:
            t = rng.choice(_ID_TMPL)
            lines.append(t.replace('%s', identifier(rng)) if rng.random() < .7 else t % tuple(identifier(rng) for _ in range(t.count('%s'))))
            continue
        r = rng.random()
        if r < .4:
            lit = number_literal(rng)
            tmpl = rng.choice(['x = %s\n', 'x = [%s, 1]\n', 'x = %s + 1\n', 'x = -%s\n', 'x = (%s)\n', 'x = %s if y else z\n', 'x = %s.real\n',
                               'x = %s .imag\n', 'f(%s)\n', 'x = 1if %s else 2\n', 'x = {%s: 1}\n', 'x = a[%s:]\n', 'x = %s or y\n', 'x = %sand y\n'])
            lines.append(tmpl % lit)
        elif r < .85:
            lit = string_literal(rng)
            tmpl = rng.choice(['s = %s\n', 's = (%s)\n', 's = %s %s\n', 'f(%s)\n', 's = [%s,\n     1]\n', 'msg = %s\n', 's = %s.format(1)\n', '%s\n',
                               's = %s if 1 else 2\n', 's = x + %s\n'])
            lines.append(tmpl.replace('%s %s', '%s ' + string_literal(rng).replace('%', '%%')) % lit if tmpl.count('%s') == 2 else tmpl % lit)
        else:
            lines.append(rng.choice(['x = a<<b>>c\n', 'x = a**-b\n', 'x = a//b\n', 'x @= y\n', 'x = a<=b>=c!=d\n', 'x = a->b\n' if False else 'def f() -> int: pass\n',
                                     'x = a if b else c\n', 'x = [...]\n', 'x = a.b. c\n', 'x = a ;y = b\n', 'x = (a:=1)\n', 'x |= 1; x ^= 2; x &= 3\n',
                                     'x = not-a\n', 'x = a<b\n', 'x=~a\n', 'x = a\\\n + b\n', 'x = (a,\n  b)\n', 'if a:\n\tb\n', 'if a:\n  b\n  c\n', 'x = 1 # c\n#d\n',
                                     'x = 1  # a\x1eb\ny = 2\n', '# \x1c\x1d\x85 c\nx = 1\n', 'x = 1 # \u2028 y\nz = 2 # \x0b\n', '#\x0c\nx = (1, # \u2029\n 2)\n']))
    return ''.join(lines)


def valid_number(rng):
    """a number literal spelled from the lexical grammar of Python 3.6+ (always valid): every place an underscore may stand"""
    def digitpart(ds, first=None):
        s = rng.choice(first or ds)
        for _ in range(rng.choice([0, 0, 1, 2, 4])):
            s += ('_' if rng.random() < .3 else '') + rng.choice(ds)
        return s
    r = rng.random()
    if r < .3:
        p, ds = rng.choice([('0x', '0123456789abcdefABCDEF'), ('0X', '09afAF'), ('0o', '01234567'), ('0O', '07'), ('0b', '01'), ('0B', '01')])
        return p + ('_' if rng.random() < .3 else '') + digitpart(ds)
    if r < .5:
        return digitpart('0123456789', '123456789') if rng.random() < .8 else ('0' + ''.join(rng.choice(['0', '_0']) for _ in range(rng.randint(0, 3))))
    dp = lambda: digitpart('0123456789')
    ex = lambda: rng.choice('eE') + rng.choice(['', '+', '-']) + dp()
    k = rng.randrange(5)
    f = [dp() + '.' + dp(), dp() + '.', '.' + dp(), dp() + ex(), rng.choice([dp() + '.' + dp(), '.' + dp(), dp() + '.']) + ex()][k]
    if rng.random() < .35:
        return rng.choice([f, dp()]) + rng.choice('jJ')
    return f
