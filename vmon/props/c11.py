"""C11 - navigation and position lookup (DESIGN §2 C11).  Invariant walk on every tree the real
Grammar.parse returns; lookups go through a contract on BaseNode.get_leaf_for_position."""
import random

from .. import contracts, harness
from ..gen import text as G
from ..oracles import treechecks
from . import _text

ID = 'C11'
LEVEL = 'exploration'
RULE = ('cases = hostile mix (small texts: every (line, column) looked up; slices: 400 sampled positions) on cycled '
        'versions; judged by identity comparison of get_next/previous_leaf, get_next/previous_sibling, '
        'get_first/last_leaf, get_root_node, search_ancestor and get_leaf_for_position(include_prefixes=True/False) '
        'against the leaf list / child lists of a plain iterative walk; positions outside the file must raise '
        'ValueError. non-trivial = distinct input whose tree has a zero-width error leaf or repeated equal siblings')
ASSUMPTIONS = ['the expected leaf for a position is the first leaf in document order whose end_pos >= position']
_state = {}


def _lookup_post(result, args, kwargs, old):
    ctx = _state.get('ctx')
    if ctx is not None:
        ctx.count('contract_evals:get_leaf_for_position')


def _install(ctx):
    if _state.get('installed'):
        _state['ctx'] = ctx
        return
    _state['installed'] = True
    import parso.tree
    _state['ctx'] = ctx
    contracts.install(parso.tree.BaseNode, 'get_leaf_for_position', _lookup_post)


def _judge(ctx, v, code, rng):
    import parso
    try:
        m = parso.load_grammar(version=v).parse(code)
    except RecursionError:
        ctx.count('recursion_error_skipped')
        return
    except Exception:
        ctx.count('parse_raised_not_judged_here')
        return
    ctx.count('evaluations')
    viol, info = treechecks.check_navigation(m, code, rng, all_positions=len(code) < 400)
    for kind, msg in viol:
        ctx.violation(kind, msg, {'version': v, 'code': code})
    ctx.count('positions_looked_up', info['positions'])
    ctx.count('zero_width_leaves', info['zero_width'])
    ctx.count('node_leaf_navigations', info.get('node_leaf_navigations', 0))
    if info['zero_width'] or info['repeated_siblings']:
        ctx.nontriv(v + '\0' + code)
    if info['zero_width'] and len(code) < 80:
        ctx.sample({'version': v, 'code': code, 'positions': info['positions']})


def run_shard(spec, ctx):
    _install(ctx)
    rng = random.Random(spec['seed'] + 7)
    for v, code, origin in _text.cases(spec, ctx):
        _judge(ctx, v, code, rng)


def replay(w, ctx):
    _install(ctx)
    _judge(ctx, w['version'], w['code'], random.Random(0))


def shards(tier, seed):
    return _text.shards(tier, seed, 16000, 400000)


def floors(tier):
    return {'evaluations': 2000, 'positions_looked_up': 100000, 'zero_width_leaves': 200,
            'contract_evals:get_leaf_for_position': 100000, 'node_leaf_navigations': 100000}
