"""C11 - navigation and position lookup (DESIGN §2 C11).  Invariant walk on every tree the real
Grammar.parse returns; lookups go through a contract on BaseNode.get_leaf_for_position."""
import random

from .. import contracts, harness
from ..gen import text as G
from ..oracles import treechecks
from . import _text

ID = 'C11'
LEVEL = 'exploration'
RULE = ('cases = hostile mix (small texts: every (line, column) looked up; slices: 400 sampled positions) on cycled '
        'versions; judged by identity comparison of get_next/previous_leaf, get_next/previous_sibling, '
        'get_first/last_leaf, get_root_node, search_ancestor and get_leaf_for_position(include_prefixes=True/False) '
        'against the leaf list / child lists of a plain iterative walk; positions outside the file must raise '
        'ValueError. non-trivial = distinct input whose tree has a zero-width error leaf or repeated equal siblings')
ASSUMPTIONS = ['the expected leaf for a position is the first leaf in document order whose end_pos >= position']
_state = {}


def _lookup_post(result, args, kwargs, old):
    ctx = _state.get('ctx')
    if ctx is not None:
        ctx.count('contract_evals:get_leaf_for_position')
    rec = _state.get('recording')
    if rec is not None and len(rec) < 50:
        # a lookup the library itself makes (the incremental parser does): remembered, and asked again afterwards
        pos = args[1] if len(args) > 1 else kwargs.get('position')
        inc = args[2] if len(args) > 2 else kwargs.get('include_prefixes', False)
        rec.append((args[0], tuple(pos), bool(inc)))


def _install(ctx):
    if _state.get('installed'):
        _state['ctx'] = ctx
        return
    _state['installed'] = True
    import parso.tree
    _state['ctx'] = ctx
    contracts.install(parso.tree.BaseNode, 'get_leaf_for_position', _lookup_post)


def _judge(ctx, v, code, rng):
    import parso
    try:
        m = parso.load_grammar(version=v).parse(code)
    except RecursionError:
        ctx.count('recursion_error_skipped')
        return
    except Exception:
        ctx.count('parse_raised_not_judged_here')
        return
    ctx.count('evaluations')
    viol, info = treechecks.check_navigation(m, code, rng, all_positions=len(code) < 400)
    for kind, msg in viol:
        ctx.violation(kind, msg, {'version': v, 'code': code})
    ctx.count('positions_looked_up', info['positions'])
    ctx.count('zero_width_leaves', info['zero_width'])
    ctx.count('node_leaf_navigations', info.get('node_leaf_navigations', 0))
    ctx.count('random_order_queries', info.get('random_order_queries', 0))
    if info['zero_width'] or info['repeated_siblings']:
        ctx.nontriv(v + '\0' + code)
    if info['zero_width'] and len(code) < 80:
        ctx.sample({'version': v, 'code': code, 'positions': info['positions']})


def _judge_history(ctx, v, hist, rng, hid):
    """trees that went through incremental updates: the lookups the diff parser made on the module while updating it are
    asked again first (most recent first), then the whole walk"""
    import parso
    from parso.cache import parser_cache
    from ..oracles.common import leaves
    g = parso.load_grammar(version=v)
    path = '/virt/c11/%s.py' % hid
    try:
        for i, text in enumerate(hist):
            w = {'version': v, 'history': hist[:i + 1]}
            _state['recording'] = []
            try:
                m = g.parse(text, diff_cache=True, path=path)
            except RecursionError:
                return
            except Exception:
                ctx.count('parse_raised_not_judged_here')
                return
            finally:
                rec, _state['recording'] = _state['recording'], None
            if not i:
                continue
            ctx.count('evaluations')
            ctx.count('incremental_trees')
            L = leaves(m)
            for node, pos, inc in reversed([r for r in rec if r[0] is m]):
                if not ((1, 0) <= pos <= tuple(m.end_pos)):
                    continue
                ctx.count('internal_lookups_asked_again')
                try:
                    got = m.get_leaf_for_position(pos, include_prefixes=inc)
                except Exception as e:
                    ctx.violation('lookup_raise', 'after an incremental update get_leaf_for_position(%s, %s) raised %r' % (pos, inc, e), w)
                    return
                exp = treechecks.expected_leaf(L, pos, inc)
                if got is not exp:
                    ctx.violation('lookup_after_update', 'after an incremental update get_leaf_for_position(%s, include_prefixes=%s) -> %r, expected %r '
                                  '(a lookup the diff parser itself made during the update)' % (pos, inc, got, exp), w)
                    return
            viol, info = treechecks.check_navigation(m, text, rng, all_positions=len(text) < 300, max_positions=150)
            for kind, msg in viol:
                ctx.violation(kind, 'incremental tree, step %d: %s' % (i, msg), w)
            if viol:
                return
            ctx.count('positions_looked_up', info['positions'])
            ctx.count('random_order_queries', info.get('random_order_queries', 0))
    finally:
        parser_cache.pop(g._hashed, None)


def run_shard(spec, ctx):
    _install(ctx)
    rng = random.Random(spec['seed'] + 7)
    if spec['kind'] == 'incremental':
        from . import c04
        files = G.corpus_files()
        for i in range(spec['n']):
            if ctx.out_of_time():
                ctx.count('stopped_by_time_budget')
                break
            _judge_history(ctx, harness.VERSIONS[i % 9], c04.make_history(rng, files), rng, str(i))
        return
    for v, code, origin in _text.cases(spec, ctx):
        _judge(ctx, v, code, rng)


def replay(w, ctx):
    _install(ctx)
    if 'history' in w:
        return _judge_history(ctx, w['version'], w['history'], random.Random(0), 'replay')
    _judge(ctx, w['version'], w['code'], random.Random(0))


def shards(tier, seed):
    q = tier == 'quick'
    return _text.shards(tier, seed, 16000, 400000) + [{'kind': 'incremental', 'n': 250 if q else 20000, 'budget_s': 60 if q else 900} for _ in range(4)]


def floors(tier):
    return {'evaluations': 2000, 'positions_looked_up': 100000, 'zero_width_leaves': 200,
            'contract_evals:get_leaf_for_position': 100000, 'node_leaf_navigations': 100000, 'random_order_queries': 500000,
            'incremental_trees': 1000, 'internal_lookups_asked_again': 500}
