"""C07 - strict and recovering parsers agree (DESIGN §2 C07)."""
import random

from .. import harness
from ..gen import text as G
from ..oracles.common import VIRTUAL, first_error_target, sig_diff, tree_sig
from . import _text

ID = 'C07'
LEVEL = 'exploration'
RULE = ('cases = hostile mix (~90% contain an error), valid snippets and one-line compound statements with and without a final newline, whole files, on cycled versions, all through the same grammar objects in one process; both parser modes run on the same '
        'input: strict raises ParserSyntaxError iff the recovered tree has an error node/leaf; if not, the two trees '
        'have equal signatures; if so, the strict error leaf has the position (and, unless it is a zero-width '
        'indentation token, the value and token type) of the first error the recovering parser marks. '
        'non-trivial = distinct input on which strict parsing raised')
ASSUMPTIONS = ['first error of the recovering parser = first error leaf in document order, or the leaf following the '
               'first error node, whichever comes first', 'prefix of the error leaf is not compared (not in the statement)']


def _judge(ctx, v, code):
    import parso
    g = parso.load_grammar(version=v)
    w = {'version': v, 'code': code}
    try:
        m = g.parse(code)
    except RecursionError:
        ctx.count('recursion_error_skipped')
        return
    except Exception:
        ctx.count('recovering_raised_not_judged_here')
        return
    ctx.count('evaluations')
    fe = first_error_target(m)
    exc = None
    try:
        s = g.parse(code, error_recovery=False)
    except parso.ParserSyntaxError as e:
        exc = e
    except RecursionError:
        ctx.count('recursion_error_skipped')
        return
    except Exception as e:
        info = harness.exc_info(e)
        ctx.violation('strict_other_exception', 'strict parsing raised %s: %s in %s: %s' % (info['type'], info['text'], info['func'], info['line']),
                      w, exc=info)
        return
    if (exc is None) != (fe is None):
        ctx.violation('modes_disagree', 'strict %s but the recovered tree %s' % (
            'accepted' if exc is None else 'raised at %s %r' % (exc.error_leaf.start_pos, exc.error_leaf.value),
            'has no error' if fe is None else 'has %s %r' % (fe[0], fe[1])), w)
        return
    if exc is None:
        ctx.count('both_accept')
        d = sig_diff(tree_sig(s), tree_sig(m))
        if d:
            ctx.violation('trees_differ', 'strict and recovering trees differ: ' + d, w)
        return
    ctx.count('strict_raised')
    ctx.nontriv(v + '\0' + code)
    kind, node, tgt = fe
    el = exc.error_leaf
    ctx.count('first_error_is_' + kind)
    if tgt is None:
        ctx.violation('no_leaf_after_error_node', 'first error node is the last thing in the tree', w)
        return
    tt = getattr(el.token_type, 'name', el.token_type)
    if el.start_pos != tgt.start_pos:
        ctx.violation('error_position', 'strict error leaf %s %r at %s; first recovered error (%s) is %r at %s' % (
            tt, el.value, el.start_pos, kind, tgt, tgt.start_pos), w)
        return
    if tt in VIRTUAL:
        ctx.count('strict_error_on_virtual_token')
        return
    if el.value != tgt.value:
        ctx.violation('error_value', 'strict error leaf %r, recovered %r at %s' % (el.value, tgt.value, tgt.start_pos), w)
        return
    if tgt.type == 'error_leaf' and tgt.token_type != tt:
        ctx.violation('error_token_type', 'strict error token type %s, recovered error leaf %s' % (tt, tgt.token_type), w)
    if len(code) < 80:
        ctx.sample({'version': v, 'code': code, 'strict_error': [tt, el.value, list(el.start_pos)], 'recovered_first': kind})


EOF_FORMS = ['try: x', 'if a: b', 'if a:\n    b', 'class C:\n    def f(self): pass', 'with a: b', 'for x in y: z', 'while x: y', 'def f(): return',
             'try: x\nfinally: y', 'x = 1', 'if a: b\nelse: c', 'try: x\nexcept: y', 'class C: pass', 'async def f(): pass', 'lambda: 0',
             'x = (1,\n 2)', 'x = 1  # c', 'if a:\n    b\n    ', 'def f():\n    return 1\n  ', 'x = 1\\\n', 'x = 1;', 'pass; pass', '@d\ndef f(): pass']


_KW = ['from', 'import', 'as', 'in', 'is', 'not', 'and', 'or', 'if', 'else', 'elif', 'for', 'while', 'def', 'class', 'return', 'yield', 'lambda', 'with',
       'try', 'except', 'finally', 'raise', 'pass', 'del', 'global', 'nonlocal', 'assert', 'async', 'await', 'None', 'True', 'match', 'case', 'type',
       'print', 'exec', ':', '=', ':=', '->', ',', '.', '...', '(', ')', '[', ']', '{', '}', '*', '**', '@', ';', '!', '$', '?', '1', "'s'", 'x', '\\']


def _near_miss(rng, files):
    """a valid piece of real code with exactly one slip of the kind people make: two statements on one line (line break lost), or one
    stray keyword / operator at a token boundary - the first error of both parsers must be the same token"""
    import re
    base = G.corpus_slice(rng, files, inject=(0, 0)) if rng.random() < .8 else rng.choice(G.RULE_TRIGGERS)
    lines = G.split_keep(base)
    if not lines:
        return base
    if rng.random() < .2:
        # one line indented a little differently (the inconsistent dedent / stray indent)
        k = rng.randrange(len(lines))
        body = lines[k].lstrip(' \t')
        width = len(lines[k]) - len(body)
        lines[k] = ' ' * max(0, width + rng.choice([-3, -2, -1, 1, 2, 3, 4])) + body
        return ''.join(lines)
    if rng.random() < .5 and len(lines) > 1:
        k = rng.randrange(len(lines) - 1)
        lines[k] = lines[k].rstrip('\r\n') + ' '
        lines[k + 1] = lines[k + 1].lstrip(' \t')
        return ''.join(lines)
    k = rng.randrange(len(lines))
    parts = re.split(r'(\s+|(?<=\w)(?=\W)|(?<=\W)(?=\w))', lines[k])
    j = rng.randrange(len(parts) + 1)
    pool = [w for w in re.findall(r'[A-Za-z_]+', base) if w in _KW]
    tok = rng.choice(pool) if pool and rng.random() < .5 else rng.choice(_KW)
    parts.insert(j, ' ' + tok + ' ')
    lines[k] = ''.join(p for p in parts if p is not None)
    return ''.join(lines)


def _gen(rng, files):
    r = rng.random()
    if r < .08:
        return rng.choice(EOF_FORMS)
    if r > .8:
        return _near_miss(rng, files)
    if r < .16:
        from ..gen import valid
        s = rng.choice(valid.VALID_SNIPPETS)
        return s.rstrip('\r\n') if rng.random() < .6 else s
    return G.hostile(rng, files)


def run_shard(spec, ctx):
    it = _text.whole_files(spec, ctx) if spec['kind'] == 'files' else _text.cases(spec, ctx, gen=_gen)
    for v, code, origin in it:
        _judge(ctx, v, code)


def replay(w, ctx):
    _judge(ctx, w['version'], w['code'])


def shards(tier, seed):
    s = _text.shards(tier, seed, 64000, 900000)
    nf = 8
    s += [{'kind': 'files', 'shard': i, 'nshards': nf, 'file_stride': 16 if tier == 'quick' else 1,
           'budget_s': 60 if tier == 'quick' else 900} for i in range(nf)]
    return s


def floors(tier):
    return {'evaluations': 4000, 'strict_raised': 2000, 'both_accept': 300, 'first_error_is_node': 300, 'first_error_is_leaf': 300}
