"""C03 - positions are true (DESIGN §2 C03).  Contract on Grammar.parse + independent position walker."""
import random

from .. import contracts, harness
from ..gen import text as G
from ..oracles import treechecks
from . import _text

ID = 'C03'
LEVEL = 'exploration'
RULE = ('cases = hostile mix biased to multi-line tokens (triple-quoted / continued strings, f-strings over '
        'continuation lines), \\r-only and mixed newlines, non-Python separators (\\f \\v FS GS RS NEL U+2028/9), BOM; '
        'whole files; trees produced by the incremental parser after 1-4 edits (lone-CR newlines over-represented); versions cycled; judged by a contract on Grammar.parse that walks the text through every leaf '
        "(start_pos, end_pos, get_start_pos_of_prefix), node start/end, module.end_pos and line count. "
        'non-trivial = distinct input with a multi-line leaf, a lone \\r, a non-Python separator, a BOM or a '
        'zero-width indentation error leaf')
ASSUMPTIONS = ['zero-width INDENT/DEDENT/ERROR_DEDENT error leaves are only required to be zero-width, ordered, '
               'not before the preceding text and not after the next real leaf (the documented exception)',
               'the previous leaf of a leaf is the previous leaf that holds text (zero-width indentation leaves hold none)']
_state = {}
SEPS = '\f\v\x1c\x1d\x1e\x85\u2028\u2029'


def _post(result, args, kwargs, old):
    ctx = _state.get('ctx')
    if ctx is None or not kwargs.get('error_recovery', True):
        return
    code = args[1] if len(args) > 1 else kwargs.get('code')
    if not isinstance(code, str):
        return
    from parso.utils import split_lines
    ctx.count('evaluations')
    ctx.count('contract_evals:Grammar.parse')
    v = _ver(args)
    viol, info = treechecks.check_positions(result, code, split_lines)
    for kind, msg in viol:
        ctx.violation(kind, msg, {'version': v, 'code': code})
    for k, n in info.items():
        ctx.count('leaves_' + k, n)
    lone_cr = '\r' in code.replace('\r\n', '')
    if info['multiline'] or info['virtual'] or lone_cr or code.startswith('﻿') or any(c in code for c in SEPS):
        ctx.nontriv(v + '\0' + code)
    if info['multiline'] and len(code) < 100:
        ctx.sample({'version': v, 'code': code, 'multi_line_leaves': info['multiline']})


def _install(ctx):
    if _state.get('installed'):
        _state['ctx'] = ctx
        return
    _state['installed'] = True
    import parso.grammar
    _state['ctx'] = ctx
    contracts.install(parso.grammar.Grammar, 'parse', _post)


ML = ['"""a\nb"""', "'''\r\n'''", '"a\\\nb"', "'a\\\r\nb'", 'f"""{x}\n{y}"""', 'f"a\\\n{x}"', "f'''{\nx}'''",
      '"""\r"""', 'x = """\n', "'''a\rb", 'f"{x:\\\n}"', '\\\n', '\\\r', '# c\r', '\f', '\x1c', '\x85', '\u2028',
      '\ufeff', 'rb"""\n\n"""', 'f"""\n', '"\\\n', "r'''\\\n'''", '\v', '\x1d', '\x1e', '\u2029', 'b"""\r\n"""']


def _gen(rng, files):
    r = rng.random()
    if r < .5:
        return G.hostile(rng, files)
    parts = [rng.choice(ML) if rng.random() < .5 else rng.choice(G.FRAG) for _ in range(rng.randint(1, 14))]
    s = ''.join(parts)
    if rng.random() < .2:
        s = s.replace('\n', rng.choice(['\r', '\r\n']))
    if rng.random() < .1:
        s = '\ufeff' + s
    return s


def _incremental(ctx, rng, files):
    """positions of trees that come out of the incremental (diff_cache) parser: same contract, different producer"""
    import parso
    from parso.cache import parser_cache
    from parso.utils import split_lines
    v = rng.choice(harness.VERSIONS)
    g = parso.load_grammar(version=v)
    base = G.structured_program(rng) if rng.random() < .5 else G.corpus_slice(rng, files, maxlines=40, inject=(0, 1))
    nl = rng.choice(['\n', '\n', '\r', '\r', '\r\n'])
    if rng.random() < .25:
        base = ''.join(G.inflate(G.split_keep(base), rng))       # a very long token somewhere, to be moved by the edits
        ctx.count('incremental_bases_with_a_long_token')
    cur = G.split_keep(base.replace('\r\n', '\n').replace('\n', nl))
    path = '/virt/c03/%d.py' % rng.getrandbits(40)
    try:
        g.parse(''.join(cur), diff_cache=True, path=path)
        for _ in range(rng.randint(1, 4)):
            cur = G.mutate_lines(cur, rng)
            if rng.random() < .3 and cur:
                cur[-1] = cur[-1].rstrip('\r\n') + rng.choice(['', '    ', ' \\', '(', ' ,'])
            text = ''.join(cur)
            _state['version'] = v
            m = g.parse(text, diff_cache=True, path=path)
            ctx.count('incremental_trees')
            viol, info = treechecks.check_positions(m, text, split_lines)
            for kind, msg in viol:
                ctx.violation(kind, 'incremental tree: ' + msg, {'version': v, 'code': text, 'history_last': ''.join(cur)}, incremental=True)
            if viol:
                break
    except RecursionError:
        pass
    except Exception:
        ctx.count('diff_parser_raised_not_judged_here')
    finally:
        parser_cache.pop(g._hashed, None)


def run_shard(spec, ctx):
    import parso
    _install(ctx)
    if spec['kind'] == 'incremental':
        rng = random.Random(spec['seed'])
        files = G.corpus_files()
        for i in range(spec['n']):
            if ctx.out_of_time():
                break
            ctx.count('evaluations')
            _incremental(ctx, rng, files)
        return
    if spec['kind'] == 'suite':
        return _text.run_repo_suite(ID, ctx)
    it = _text.whole_files(spec, ctx) if spec['kind'] == 'files' else _text.cases(spec, ctx, gen=_gen)
    for v, code, origin in it:
        _state['version'] = v
        if spec['kind'] == 'files' and spec['shard'] % 3 == 0:
            code = code.replace('\n', '\r\n' if spec['shard'] % 2 else '\r')
        try:
            parso.load_grammar(version=v).parse(code)
        except RecursionError:
            ctx.count('recursion_error_skipped')
        except Exception:
            ctx.count('parse_raised_not_judged_here')


def replay(w, ctx):
    import parso
    _install(ctx)
    _state['version'] = w['version']
    parso.load_grammar(version=w['version']).parse(w['code'])


def shards(tier, seed):
    s = _text.shards(tier, seed, 64000, 900000)
    nf = 16
    s += [{'kind': 'files', 'shard': i, 'nshards': nf, 'file_stride': 12 if tier == 'quick' else 1,
           'budget_s': 60 if tier == 'quick' else 900} for i in range(nf)]
    s += [{'kind': 'incremental', 'n': 1500 if tier == 'quick' else 60000, 'budget_s': 60 if tier == 'quick' else 900} for _ in range(4)]
    if tier == 'thorough':
        s.append({'kind': 'suite'})
    return s


def floors(tier):
    return {'evaluations': 5000, 'leaves_multiline': 500, 'leaves_virtual': 300, 'incremental_trees': 3000}


def _ver(args):
    gv = getattr(args[0], 'version_info', None) if args else None
    return '%d.%d' % (gv.major, gv.minor) if gv is not None else _state.get('version')


def install_for_suite(ctx):
    _install(ctx)
