"""C15 - source decoding and line splitting follow Python's rules (DESIGN §2 C15).
Deciding monitors: recording contracts on the real python_bytes_to_unicode and split_lines."""
import io
import itertools
import os
import random
import tokenize as pytokenize

from .. import contracts, harness
from ..gen import text as G
from ..oracles.common import ref_split_lines

ID = 'C15'
LEVEL = 'exploration'
RULE = ('(a) byte strings = first-two-line combinations of ~40 cookie / non-cookie lines x BOM x newline style x payload bytes, '
        'plus corpus files as bytes; contract on python_bytes_to_unicode: whenever CPython tokenize.detect_encoding determines '
        'the encoding and the bytes decode with it, the result must be that text (BOM character kept); str input unchanged. '
        '(b) strings over a 19-character alphabet of every separator str.splitlines knows (exhaustive up to length 4 quick / 5 '
        'thorough, random up to 12) and corpus texts; contract on split_lines: equals a reference splitter on \\n|\\r\\n|\\r for both '
        'keepends, never empty, joins back; line count equals module.end_pos line. non-trivial = distinct bytes with a cookie or '
        'BOM / distinct string with >= 2 different separators')
ASSUMPTIONS = ['tokenize.detect_encoding of the running CPython, applied to a copy with all line breaks translated to \\n (as the compiler does '
               'before looking for the declaration), is the reference where it succeeds']
_state = {}
ALPHA = ['\n', '\r', '\x0b', '\x0c', '\x1c', '\x1d', '\x1e', '\x85', ' ', ' ', 'a', ' ', '#', '\\', '"', '\t', 'é', '\x00', '\x1f']


def _ref_decode(b):
    """-> ('ok', text) | ('skip', why).  CPython translates all line breaks to \\n before it looks for the coding
    declaration (decode_str -> translate_newlines), while tokenize.detect_encoding reads lines with readline(); so the
    encoding is determined on a copy with \\r\\n and lone \\r translated, and the *original* bytes are decoded with it."""
    t = b.replace(b'\r\n', b'\n').replace(b'\r', b'\n')
    try:
        enc, _ = pytokenize.detect_encoding(io.BytesIO(t).readline)
    except SyntaxError:
        return 'skip', 'cpython_cannot_determine_encoding'
    except Exception as e:
        return 'skip', 'detect_encoding_' + type(e).__name__
    try:
        if enc == 'utf-8-sig':
            return 'ok', '\ufeff' + b.decode('utf-8-sig')
        return 'ok', b.decode(enc)
    except Exception:
        return 'skip', 'cpython_cannot_decode'


def _dec_post(result, args, kwargs, old):
    ctx = _state.get('ctx')
    if ctx is None or not _state.get('active'):
        return
    src = args[0] if args else kwargs.get('source')
    if kwargs.get('errors', 'strict') != 'strict' or (len(args) > 1) or 'encoding' in kwargs:
        return
    ctx.count('contract_evals:python_bytes_to_unicode')
    if isinstance(src, str):
        if result is not src and result != src:
            ctx.violation('str_input_changed', 'str input was changed', {'bytes': src})
        return
    st, exp = _ref_decode(src)
    if st == 'skip':
        ctx.count('not_judged:' + exp)
        return
    ctx.count('decodings_judged')
    if result != exp:
        ctx.violation('decoded_text_differs', 'CPython decodes %r... to %r..., parso to %r...' % (src[:60], exp[:40], result[:40]),
                      {'bytes': src}, **_cookie_facts(src))
    _state['last_ok'] = True


def _cookie_facts(b):
    import re
    lines = re.split(br'\r\n|\r|\n', b)[:2]
    facts = {'word_coding_in_first_two_lines': any(b'coding' in l for l in lines)}
    cm = [re.match(br'^[ \t\f]*#.*?coding[:=][ \t]*([-\w.]+)', l) for l in lines]
    facts['pep263_comment_cookie_line'] = next((i + 1 for i, m in enumerate(cm) if m), None)
    facts['first_line_is_code'] = bool(lines) and not re.match(br'^[ \t\f]*(#.*)?$', lines[0])
    facts['cookie_name'] = next((m.group(1).decode('ascii', 'replace') for m in cm if m), None)
    return facts


def _dec_raise(exc, args, kwargs):
    ctx = _state.get('ctx')
    if ctx is None or not _state.get('active'):
        return
    src = args[0] if args else kwargs.get('source')
    if isinstance(src, str) or kwargs.get('errors', 'strict') != 'strict' or len(args) > 1 or 'encoding' in kwargs:
        return
    st, exp = _ref_decode(src)
    if st == 'skip':
        ctx.count('not_judged:' + exp)
        return
    ctx.count('decodings_judged')
    info = harness.exc_info(exc)
    ctx.violation('decode_raised', 'CPython decodes %r... but parso raised %s: %s' % (src[:60], info['type'], info['text'][:80]),
                  {'bytes': src}, exc=info, **_cookie_facts(src))


def _sl_post(result, args, kwargs, old):
    ctx = _state.get('ctx')
    if ctx is None or not _state.get('active'):
        return
    s = args[0] if args else kwargs.get('string')
    keep = args[1] if len(args) > 1 else kwargs.get('keepends', False)
    ctx.count('contract_evals:split_lines')
    exp = ref_split_lines(s, keep)
    w = {'string': s, 'keepends': bool(keep)}
    if result != exp:
        ctx.violation('split_lines_differs', 'split_lines(%r, keepends=%s) = %r, reference %r' % (s[:40], keep, result[:6], exp[:6]), w)
    elif not result:
        ctx.violation('split_lines_empty', 'empty result', w)
    elif keep and ''.join(result) != s:
        ctx.violation('split_lines_join', 'lines do not join back', w)


def _install(ctx):
    if _state.get('installed'):
        _state['ctx'] = ctx
        return
    _state['installed'] = True
    import parso.utils
    _state['ctx'] = ctx
    contracts.install(parso.utils, 'python_bytes_to_unicode', _dec_post, on_raise=_dec_raise)
    contracts.install(parso.utils, 'split_lines', _sl_post)


COOKIES = [b'\x0c', b' \x0c ', b'\t', b'   ', b'\x0c# c', b' \t\x0c\x0c', b'\x0b', b'\x0c\x0b', b' #', b'\x0c\x0c#\x0c', b'\x1c', b'\xc2\xa0',
           b'# -*- coding: utf-8 -*-', b'# coding: latin-1', b'# coding=cp1252', b'#coding:utf8', b'# vim: set fileencoding=iso-8859-15 :',
           b'#!/usr/bin/python', b'', b'# just a comment', b'x = 1', b'encoding=name', b'x#coding:cp1252', b'x = "coding: latin-1"',
           b'# coding: iso-latin-1-unix', b'# coding: utf-8-unix', b'# coding: Latin_1', b'# coding: UTF_8', b'# coding: ascii',
           b'# coding: no-such-codec', b'# coding:', b'# coding: utf-16', b'"""coding: cp1252"""', b'import os # coding: latin-1',
           b'    # coding: cp437', b'\x0c# coding: koi8-r', b'#\tcoding=\tlatin-1', b'# -*- coding: euc-jp -*-', b'def f(): pass',
           b'# coding: big5', b'# coding : latin-1', b'# Coding: latin-1', b'# encoding: latin-1', b'#coding=utf-8-sig', b'pass',
           b'# coding: cp1252 extra', b'# coding: latin-1 # coding: utf-8', b'x = "\xe9"', b'# \xe9 coding: latin-1', b'\\', b'#',
           b'# coding: mbcs', b'# coding: punycode', b'# coding: rot13', b'# coding: utf-7', b'# coding: shift_jis_2004', b'# coding: unicode_escape',
           b'# coding: iso2022_jp_ext', b'# coding: iso-2022-jp-2004', b'# coding: Shift_JISX0213', b'# coding: raw_unicode_escape', b'# coding: mac_cyrillic',
           b'# coding: iso8859_15', b'# coding: windows-1252', b'# coding: ISO_8859-1:1987', b'# coding: utf_8_sig', b'# coding: euc_jis_2004', b'# coding: cp65001']
PAYLOADS = [b'', b's = "\\u00e9 \\x41"\n', b'x = "+AOk-"\n', b's = "\x1b$B$"(B"\n', b's = "\x82\xa0"\n', b'x = 1\r# vim: set fileencoding=latin-1 :\rs = "\xc3\xa9"\r', b'# encoding=cp1252\r\xc3\xa9 = 1\r', b'x = 1\n', b's = "\xe9"\n', b'\xc3\xa9 = 1\n', b's = "\xff\xfe"\n', b'# \x80\x81\n', b'x = "\xa4"\n', b'\n\n', b'coding: latin-1\n']


def gen_bytes(rng):
    l1, l2 = rng.choice(COOKIES), rng.choice(COOKIES)
    nl = rng.choice([b'\n', b'\n', b'\r\n', b'\r', b'\r'])
    bom = b'\xef\xbb\xbf' if rng.random() < .2 else b''
    r = rng.random()
    if r < .15:
        body = l1
    elif r < .3:
        body = l1 + nl
    else:
        body = l1 + nl + l2 + nl + rng.choice(PAYLOADS)
    return bom + body


def gen_string(rng):
    return ''.join(rng.choice(ALPHA) for _ in range(rng.randint(0, 12)))


def run_shard(spec, ctx):
    import parso
    from parso.utils import python_bytes_to_unicode, split_lines
    import parso.utils as U
    _install(ctx)
    _state['active'] = True
    rng = random.Random(spec['seed'])
    kind = spec['kind']
    if kind == 'bytes':
        for i in range(spec['n']):
            b = gen_bytes(rng)
            ctx.count('evaluations')
            try:
                U.python_bytes_to_unicode(b)
            except Exception:
                pass
            if b.startswith(b'\xef\xbb\xbf') or b'coding' in b[:200]:
                ctx.nontriv(b)
            if i < 3:
                ctx.sample({'bytes': b[:80]})
            if i % 25 == 0:
                # and read from a file by path (FileIO): must be decoded like the bytes themselves
                try:
                    st, exp = _ref_decode(b)
                    if st == 'ok':
                        import tempfile
                        with tempfile.NamedTemporaryFile(prefix='vmon15-', suffix='.py', delete=False) as tf:
                            tf.write(b)
                        try:
                            m = parso.parse(path=tf.name)
                            ctx.count('files_read_by_path')
                            if m.get_code() != exp:
                                ctx.violation('parse_path_code', 'parse(path=file).get_code() is not the text CPython decodes from the file', {'bytes': b},
                                              via='path', **_cookie_facts(b))
                        finally:
                            os.unlink(tf.name)
                except Exception as e:
                    if _ref_decode(b)[0] == 'ok':
                        info = harness.exc_info(e)
                        ctx.violation('decode_raised', 'CPython decodes the file but parse(path=file) raised %s: %s' % (info['type'], info['text'][:80]),
                                      {'bytes': b}, exc=info, via='path', **_cookie_facts(b))
            if i % 50 == 0:
                # through the public parse(): decoded text == get_code()
                try:
                    m = parso.parse(b)
                    st, exp = _ref_decode(b)
                    if st == 'ok':
                        ctx.count('parse_bytes_judged')
                        if m.get_code() != exp:
                            ctx.violation('parse_bytes_code', 'parse(bytes).get_code() is not the text CPython decodes', {'bytes': b}, **_cookie_facts(b))
                except Exception:
                    pass
        # str passes through unchanged
        for s in ('', 'x = 1\n', '# coding: latin-1\n\xe9'):
            U.python_bytes_to_unicode(s)
    elif kind == 'files':
        files = G.corpus_files()[spec['shard']::spec['nshards']][::spec.get('file_stride', 1)]
        for f in files:
            try:
                with open(f, 'rb') as fh:
                    b = fh.read()
            except Exception:
                continue
            ctx.count('evaluations')
            ctx.count('corpus_files_as_bytes')
            try:
                t = U.python_bytes_to_unicode(b)
            except Exception:
                continue
            for keep in (False, True):
                U.split_lines(t, keep)
    elif kind == 'split_exhaustive':
        L = spec['length']
        first = ALPHA[spec['shard'] % len(ALPHA)::spec['nfirst']] if L else ['']
        for f in (first if L else ['']):
            for rest in itertools.product(ALPHA, repeat=max(L - 1, 0)):
                s = (f + ''.join(rest)) if L else ''
                ctx.count('evaluations')
                ctx.count('exhaustive_strings_length_%d' % L)
                for keep in (False, True):
                    U.split_lines(s, keep)
                if len(set(s) & set(ALPHA[:10])) >= 2:
                    ctx.nontriv('s' + s)
    elif kind == 'split_random':
        for i in range(spec['n']):
            s = gen_string(rng)
            ctx.count('evaluations')
            for keep in (False, True):
                r = U.split_lines(s, keep)
                if i % 3 == 0:
                    # a caller that edits the list it was given (docstring clean-up style): the next caller must not see it
                    try:
                        snap = list(r)
                        r.append('<edited by the caller>')
                        del r[0]
                        r2 = U.split_lines(s, keep)       # (the contract compares r2 with the reference as well)
                        ctx.count('results_edited_by_the_caller')
                        if r2 != snap or r2 is r:
                            ctx.violation('split_lines_aliased', 'split_lines(%r, keepends=%s) after the caller edited the previous result: %r, before %r' % (
                                s[:40], keep, r2[:5], snap[:5]), {'string': s, 'keepends': keep})
                    except (AttributeError, TypeError):
                        ctx.count('results_immutable')        # a tuple would be fine too
            if len(set(s) & set(ALPHA[:10])) >= 2:
                ctx.nontriv('s' + s)
            if i % 20 == 0:
                # line count agrees with the positions in the tree
                try:
                    m = parso.parse(s)
                    ctx.count('tree_line_count_checks')
                    if len(U.split_lines(s)) != m.end_pos[0]:
                        ctx.violation('line_count_vs_tree', 'split_lines gives %d lines, module ends on line %d' % (len(U.split_lines(s)), m.end_pos[0]),
                                      {'string': s, 'keepends': False})
                except Exception:
                    pass
            if i < 2:
                ctx.sample({'string': s})
    _state['active'] = False


def replay(w, ctx):
    import parso.utils as U
    _install(ctx)
    _state['active'] = True
    if 'bytes' in w:
        try:
            U.python_bytes_to_unicode(w['bytes'])
        except Exception:
            pass
    else:
        r = U.split_lines(w['string'], w.get('keepends', False))
        snap = list(r)
        try:
            r.append('<edited by the caller>')
            del r[0]
        except (AttributeError, TypeError):
            pass
        r2 = U.split_lines(w['string'], w.get('keepends', False))
        if r2 != snap or r2 is r:
            ctx.violation('split_lines_aliased', 'split_lines after the caller edited the previous result: %r, before %r' % (r2[:5], snap[:5]), w)
    _state['active'] = False


def shards(tier, seed):
    q = tier == 'quick'
    out = [{'kind': 'bytes', 'n': 8000 if q else 150000} for _ in range(6 if q else 8)]
    out += [{'kind': 'files', 'shard': i, 'nshards': 2, 'file_stride': 4 if q else 1} for i in range(2)]
    out += [{'kind': 'split_random', 'n': 20000 if q else 300000} for _ in range(3 if q else 4)]
    for L in range(0, 4):
        out.append({'kind': 'split_exhaustive', 'length': L, 'nfirst': 1, 'shard': 0})
    top = 4 if q else 5
    for L in range(4, top + 1):
        for k in range(len(ALPHA)):
            out.append({'kind': 'split_exhaustive', 'length': L, 'nfirst': len(ALPHA), 'shard': k})
    return out


def floors(tier):
    return {'evaluations': 100000, 'decodings_judged': 20000, 'contract_evals:split_lines': 200000, 'results_edited_by_the_caller': 2000, 'exhaustive_strings_length_4': 19 ** 4,
            'corpus_files_as_bytes': 200, 'tree_line_count_checks': 1000, 'files_read_by_path': 500}


def extra_coverage(m, tier):
    return {'split_lines_exhaustive_up_to_length': 4 if tier == 'quick' else 5, 'alphabet': [repr(c) for c in ALPHA]}
