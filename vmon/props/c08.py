"""C08 - the parser generator is faithful to the grammar text and truly LL(1) (DESIGN §2 C08).
Deciding monitor: post-condition contract on the real generate_grammar, evaluated on the live tables."""
import glob
import os
import random

from .. import contracts, harness
from ..oracles import ll1model

ID = 'C08'
LEVEL = 'exploration'
RULE = ('(a) every shipped grammar file, exhaustively: every rule (bisimulation of its automaton with the subset construction '
        'of an independent NFA), every state, every transition plan (keys = terminal arcs + FIRST of nonterminal arcs, next '
        'state, push chain, reserved-string identity); (b) random small EBNF grammars (1-6 non-nullable rules, nesting of '
        '| [] * + () up to depth 4, terminals from the token namespace and quoted strings), about a third non-LL(1) or '
        'left-recursive by construction: ValueError <=> the model finds a token claimed twice in a state or left recursion. '
        'non-trivial = distinct grammar with >= 2 rules and a nonterminal arc, or one that is rejected')
ASSUMPTIONS = ['nullable rules are outside the quoted table definition and are not generated',
               'the property text says eleven grammar files; this tree ships nine (843 rules) and all of them are checked']
_state = {}


def _post(result, args, kwargs, old):
    ctx = _state.get('ctx')
    if ctx is None:
        return
    from parso.pgen2.generator import ReservedString
    text = args[0] if args else kwargs.get('bnf_grammar')
    ns = args[1] if len(args) > 1 else kwargs.get('token_namespace')
    ctx.count('contract_evals:generate_grammar')
    w = {'grammar': text if len(text) < 3000 else None, 'file': _state.get('file')}
    try:
        problems, st = ll1model.check_tables(text, ns, result, ReservedString)
    except Exception as e:
        ctx.violation('model_failed', 'model could not read an accepted grammar: %r' % (e,), w)
        return
    for k, n in st.items():
        ctx.count('checked_' + k, n)
    seen = set()
    for kind, msg in problems:
        if kind not in seen:
            seen.add(kind)
            ctx.violation(kind, msg, w)
    _state['accepted'] = True


def _on_raise(exc, args, kwargs):
    _state['raised'] = exc


def _install(ctx):
    if _state.get('installed'):
        _state['ctx'] = ctx
        return
    _state['installed'] = True
    import parso.pgen2.generator as gen
    import parso.pgen2 as pg
    import parso.grammar as gr
    _state['ctx'] = ctx
    contracts.install(gen, 'generate_grammar', _post, on_raise=_on_raise)
    # rebinding happens for parso.* modules that imported the name; make sure of the two known ones
    assert pg.generate_grammar is gen.generate_grammar and gr.generate_grammar is gen.generate_grammar


TERMS = ['NAME', 'NUMBER', 'STRING', 'NEWLINE', 'INDENT', 'DEDENT', "'a'", "'b'", "'+'", "'if'", "'('", "')'", '","', "'x'",
         # terminals spelled with escapes: the same tokens as their plain spellings ('\\x61' is 'a', so the two conflict in one state)
         "'\\x2b'", "'\\x61'", "'\\''", '"\\""', "'\\x69f'", '"b"']


def alt_namespace():
    """a second token namespace with the same member names as PythonTokenTypes (what another language built on parso has): the
    tables generated for it must hold its own members"""
    if 'alt_ns' not in _state:
        import enum
        from parso.python.token import PythonTokenTypes
        _state['alt_ns'] = enum.Enum('AltTokens', [(m.name, 'alt-' + m.name) for m in PythonTokenTypes])
    return _state['alt_ns']


def rand_expr(rng, names, depth):
    r = rng.random()
    if depth <= 0 or r < .35:
        return rng.choice(TERMS) if rng.random() < .65 or not names else rng.choice(names)
    if r < .55:
        return ' '.join(rand_expr(rng, names, depth - 1) for _ in range(rng.randint(2, 3)))
    if r < .75:
        return '(' + ' | '.join(rand_expr(rng, names, depth - 1) for _ in range(rng.randint(2, 3))) + ')'
    if r < .80:
        # repetition written directly on a symbol, as the shipped grammars do (NAME*, 'x'+)
        sym = rng.choice(TERMS) if rng.random() < .7 or not names else rng.choice(names)
        return sym + rng.choice('*+')
    if r < .88:
        return '[' + rand_expr(rng, names, depth - 1) + ']'
    if r < .93:
        return '(' + rand_expr(rng, names, depth - 1) + ')*'
    return '(' + rand_expr(rng, names, depth - 1) + ')+'


def _nullable(a):
    k = a[0]
    if k == 'sym':
        return False     # all rules are built non-nullable, terminals are not nullable
    if k == 'seq':
        return all(_nullable(x) for x in a[1])
    if k == 'alt':
        return any(_nullable(x) for x in a[1])
    if k in ('opt', 'star'):
        return True
    return _nullable(a[1])


def cross_grammar(rng):
    """states with equal label sets whose targets are crossed: 'p' ('a' 'x' | 'b' 'y') | 'q' ('b' 'x' | 'a' 'y') - state merging
    must tell them apart however the arcs were inserted"""
    k = rng.choice([2, 2, 3])
    keys = rng.sample(["'a'", "'b'", "'c'", "'d'", "'e'", 'NAME', 'NUMBER'], k)
    tails = rng.sample(["'x'", "'y'", "'z'", "'w'", 'STRING'], k)
    alts = []
    for head in rng.sample(["'p'", "'q'", "'s'", "'t'"], rng.choice([2, 2, 3])):
        perm = tails[:]
        rng.shuffle(perm)
        order = list(range(k))
        rng.shuffle(order)
        inner = ' | '.join('%s %s' % (keys[j], perm[j]) for j in order)
        alts.append('%s (%s)' % (head, inner) + rng.choice(['', '', " 'end'", '*' if False else '']))
    return 'r0: ' + ' | '.join(alts) + '\n'


_NAME_STYLES = [lambda i: 'Rule%d' % i, lambda i: ['Sum', 'Term', 'Factor', 'Atom', 'Expr', 'Stmt', 'Block'][i],
                lambda i: ['NUMBER', 'NAME', 'STRING', 'OP', 'FSTRING_START', 'ENDMARKER', 'ERRORTOKEN'][i], lambda i: '_r%d' % i,
                lambda i: 'rule_%d_x' % i]


def rand_grammar(rng):
    from ..oracles import ebnf
    global TERMS
    if rng.random() < .06:
        return cross_grammar(rng)
    text = _rand_grammar(rng, rng.sample(TERMS[6:], rng.randint(2, 4)) if rng.random() < .3 else TERMS)
    if rng.random() < .12:
        # rule names need not be lower case; a rule may be called like a token type (the rule wins)
        import re
        style = rng.choice(_NAME_STYLES)
        text = re.sub(r'\br(\d)\b', lambda m: style(int(m.group(1))), text)
    return text


def _rand_grammar(rng, terms):
    from ..oracles import ebnf
    global TERMS
    saved, TERMS = TERMS, terms
    try:
        return _rand_grammar_inner(rng)
    finally:
        TERMS = saved


def _rand_grammar_inner(rng):
    from ..oracles import ebnf
    n = rng.randint(1, 6)
    names = ['r%d' % i for i in range(n)]
    lines = []
    for i, nm in enumerate(names):
        for _ in range(30):
            # mostly forward references (LL(1)-friendly), sometimes any rule (left recursion, conflicts)
            pool = names[i + 1:] if rng.random() < .7 else names
            e = rand_expr(rng, pool, rng.randint(1, 4))
            try:
                ast_ = ebnf.read_grammar('x: ' + e + '\n')['x']
            except Exception:
                continue
            if not _nullable(ast_):
                break
        else:
            e = 'NAME'
        lines.append('%s: %s' % (nm, e))
    return '\n'.join(lines) + '\n'


def _judge_text(ctx, text, origin):
    from parso.pgen2 import generate_grammar
    from parso.python.token import PythonTokenTypes
    _state['raised'] = None
    _state['accepted'] = False
    _state['file'] = origin
    ctx.count('evaluations')
    w = {'grammar': text if len(text) < 3000 else None, 'file': origin}
    verdict = ll1model.model_is_ll1(text)
    ns = PythonTokenTypes
    if origin == 'random' and ctx.counters['evaluations'] % 3 == 0:
        ns = alt_namespace()
        ctx.count('grammars_over_the_second_token_namespace')
    try:
        generate_grammar(text, ns)
    except ValueError as e:
        ctx.count('rejected_by_generator')
        if verdict is None:
            ctx.violation('ll1_grammar_rejected', 'generator raised %r but the model finds no conflict and no left recursion' % (str(e)[:200],), w)
        else:
            ctx.nontriv(text)
    except RecursionError:
        ctx.count('recursion_error_skipped')
    except Exception as e:
        info = harness.exc_info(e)
        ctx.violation('generator_raised', '%s: %s in %s' % (info['type'], info['text'], info['func']), w, exc=info)
    else:
        ctx.count('accepted_by_generator')
        if verdict is not None:
            ctx.violation('non_ll1_accepted', 'model: %s -- but a grammar was generated' % verdict, w)
        elif text.count('\n') >= 2 and any(('r%d' % i) in text.split(':', 1)[1] for i in range(7)):
            ctx.nontriv(text)
    if verdict is not None:
        ctx.count('model_says_not_ll1')
    if origin == 'random' and len(text) < 200:
        ctx.sample({'grammar': text, 'model_verdict': verdict})


def run_shard(spec, ctx):
    _install(ctx)
    if spec['kind'] == 'suite':
        from . import _text
        return _text.run_repo_suite(ID, ctx)
    if spec['kind'] == 'shipped':
        files = sorted(glob.glob(harness.REPO + '/parso/python/grammar*.txt'))
        for f in files:
            with open(f) as fh:
                text = fh.read()
            ctx.count('shipped_files')
            ctx.nontriv(text)
            _judge_text(ctx, text, os.path.basename(f))
            ctx.sample({'file': os.path.basename(f), 'rules': text.count('\n')})
        # and through the public loader (what every other check uses)
        import parso
        for v in harness.VERSIONS:
            parso.load_grammar(version=v)
        return
    rng = random.Random(spec['seed'])
    for i in range(spec['n']):
        if ctx.out_of_time():
            break
        _judge_text(ctx, rand_grammar(rng), 'random')


def replay(w, ctx):
    _install(ctx)
    if w.get('grammar'):
        _judge_text(ctx, w['grammar'], 'replay')
    else:
        with open(harness.REPO + '/parso/python/' + w['file']) as fh:
            _judge_text(ctx, fh.read(), w['file'])


def shards(tier, seed):
    n = 15000 if tier == 'quick' else 400000
    return ([{'kind': 'suite'}] if tier == 'thorough' else []) + [{'kind': 'shipped'}] + [{'kind': 'random', 'n': n // 15, 'budget_s': 60 if tier == 'quick' else 900} for _ in range(15)]


def floors(tier):
    return {'shipped_files': 9, 'checked_rules': 843, 'checked_plans': 25000, 'accepted_by_generator': 500,
            'rejected_by_generator': 1000, 'contract_evals:generate_grammar': 500,
            'grammars_over_the_second_token_namespace': 1000}


def extra_coverage(m, tier):
    return {'exhaustive': True, 'exhaustive_scope': 'the shipped grammar files (all rules, states and plans); the random grammars are sampled'}


def install_for_suite(ctx):
    _install(ctx)
