"""C13 - error listing total, coherent with the tree, pure, deterministic (DESIGN §2 C13).
Deciding monitor: recording contract on the real Grammar.iter_errors (snapshot of the tree
signature before, judged after), Rule.feed_node wrapped to count which rule classes were fed."""
import collections
import random

from .. import contracts, harness
from ..gen import text as G
from ..oracles.common import is_virtual, leaves, sig_diff, tree_sig, walk
from . import _text

ID = 'C13'
LEVEL = 'exploration'
RULE = ('cases = hostile mix incl. rule-trigger snippets generated for every registered ErrorFinder rule, whole files, '
        'test/failing_examples, (mostly) valid programs from the C10/C12 workload, cycled versions; contract on Grammar.iter_errors: no exception, tree signature unchanged, '
        'codes 901/903 with matching message prefix, range inside the file, <= 1 issue per line, every error leaf (outside '
        'error nodes) and the token after every outermost error node has an issue on its line, strict failure => non-empty '
        'list, second call gives the same list, and the list of each text is the same when re-listed after 40 other texts. non-trivial = distinct input with >= 1 issue')
ASSUMPTIONS = ['an issue "on the line" of a zero-width INDENT/ERROR_DEDENT leaf is an issue on the line of the following leaf']
_state = {}
_fed = collections.Counter()


def _issues_sig(issues):
    return [(i.code, i.message, i.start_pos, i.end_pos) for i in issues]


def _snap(args, kwargs):
    node = args[1] if len(args) > 1 else kwargs.get('node')
    return tree_sig(node)


def _post(result, args, kwargs, old):
    ctx = _state.get('ctx')
    if ctx is None:
        return
    g = args[0]
    node = args[1] if len(args) > 1 else kwargs.get('node')
    if node.type != 'file_input' or node.parent is not None:
        return
    v = '%d.%d' % (g.version_info.major, g.version_info.minor)
    code = _state.get('code')
    if code is None:
        code = node.get_code()
    w = {'version': v, 'code': code}
    ctx.count('contract_evals:Grammar.iter_errors')
    issues = list(result)
    after = tree_sig(node)
    if after != old:
        ctx.violation('tree_modified', 'iter_errors changed the tree: ' + str(sig_diff(old, after)), w)
    end = node.end_pos
    by_line = collections.Counter()
    for i in issues:
        by_line[i.start_pos[0]] += 1
        if i.code not in (901, 903):
            ctx.violation('issue_code', 'issue code %r' % (i.code,), w)
        elif not isinstance(i.message, str) or not i.message.startswith('SyntaxError: ' if i.code == 901 else 'IndentationError: '):
            ctx.violation('issue_message_prefix', 'code %d with message %r' % (i.code, i.message), w)
        if not ((1, 0) <= tuple(i.start_pos) <= tuple(i.end_pos) <= tuple(end)):
            ctx.violation('issue_range', 'issue %r range %s..%s outside (1,0)..%s' % (i.message, i.start_pos, i.end_pos, end), w)
    dup = [l for l, c in by_line.items() if c > 1]
    if dup:
        ctx.violation('two_issues_on_line', 'lines %s carry more than one issue' % dup[:3], w)
    lines = set(by_line)
    L = leaves(node)
    idx = {id(l): k for k, l in enumerate(L)}
    n_marks = 0
    st = [node]
    while st:
        x = st.pop()
        if x.type == 'error_leaf':
            n_marks += 1
            line = x.start_pos[0]
            if is_virtual(x) and idx[id(x)] + 1 < len(L):
                line = L[idx[id(x)] + 1].start_pos[0]
            if line not in lines and x.start_pos[0] not in lines:
                ctx.violation('error_leaf_unreported', '%s error leaf %r at %s: no issue on its line' % (x.token_type, x.value, x.start_pos), w)
        elif x.type == 'error_node':
            n_marks += 1
            last = x
            while getattr(last, 'children', None):
                last = last.children[-1]
            k = idx.get(id(last))
            nl = L[k + 1] if k is not None and k + 1 < len(L) else None
            if nl is not None and nl.start_pos[0] not in lines:
                fs = any(c.type == 'fstring_start' for c in walk(x)) or x.search_ancestor('fstring') is not None
                ctx.violation('error_node_unreported',
                              'error node at %s: no issue on line %d of the following token %r' % (x.start_pos, nl.start_pos[0], nl.value),
                              w, fstring=fs, version_ge_39=tuple(g.version_info)[:2] >= (3, 9),
                              own_first_line_reported=x.start_pos[0] in lines)
            # outermost only: do not descend
        else:
            st.extend(getattr(x, 'children', ()) or ())
    if n_marks:
        ctx.count('trees_with_error_marks')
    if issues:
        ctx.nontriv(v + '\0' + code)
        ctx.count('lists_nonempty')
        if not n_marks:
            ctx.count('lists_semantic_only')
    if n_marks and not issues:
        ctx.violation('marks_but_no_issue', 'tree has %d error marks but the list is empty' % n_marks, w)
    _state['last'] = (issues, n_marks)
    if issues and len(code) < 80:
        ctx.sample({'version': v, 'code': code, 'issues': [[i.code, i.message, list(i.start_pos)] for i in issues][:4]})


def _on_raise(exc, args, kwargs):
    ctx = _state.get('ctx')
    if ctx is None:
        return
    g = args[0]
    node = args[1] if len(args) > 1 else kwargs.get('node')
    info = harness.exc_info(exc)
    v = '%d.%d' % (g.version_info.major, g.version_info.minor)
    ctx.violation('iter_errors_raised', '%s: %s in %s: %s' % (info['type'], info['text'], info['func'], info['line']),
                  {'version': v, 'code': _state.get('code') or node.get_code()}, exc=info)


def _install(ctx):
    if _state.get('installed'):
        _state['ctx'] = ctx
        return
    _state['installed'] = True
    import parso.grammar
    import parso.normalizer
    _state['ctx'] = ctx
    contracts.install(parso.grammar.Grammar, 'iter_errors', _post, snap=_snap, on_raise=_on_raise)
    orig = parso.normalizer.Rule.feed_node

    def feed_node(self, node):
        _fed[type(self).__name__] += 1
        return orig(self, node)
    parso.normalizer.Rule.feed_node = feed_node


def _registered_rules():
    from parso.python.errors import ErrorFinder
    names = set()
    for d in (ErrorFinder.rule_value_classes, ErrorFinder.rule_type_classes):
        for lst in d.values():
            names.update(c.__name__ for c in lst)
    return names


def _judge(ctx, v, code):
    import parso
    g = parso.load_grammar(version=v)
    try:
        m = g.parse(code)
    except Exception:
        ctx.count('parse_raised_not_judged_here')
        return
    ctx.count('evaluations')
    _state['code'] = code
    _state['last'] = None
    try:
        first = list(g.iter_errors(m))
    except RecursionError:
        ctx.count('recursion_error_skipped')
        return
    except Exception:
        return  # recorded by the exception observer
    try:
        second = list(g.iter_errors(m))
    except Exception:
        return
    w = {'version': v, 'code': code}
    # cross-call determinism: the list of a text must not depend on what was listed in between
    ring = _state.setdefault('ring', [])
    ring.append((v, code, _issues_sig(first)))
    if len(ring) >= 40:
        _state['ring'] = []
        for v0, code0, sig0 in reversed(ring):
            try:
                g0 = parso.load_grammar(version=v0)
                again = _issues_sig(list(g0.iter_errors(g0.parse(code0))))
            except Exception:
                continue
            ctx.count('relisted_after_other_calls')
            if again != sig0:
                ctx.violation('depends_on_earlier_calls', 'the issue list of a text changed after other texts were listed: %r then %r' % (
                    [x for x in sig0 if x not in again][:2], [x for x in again if x not in sig0][:2]), {'version': v0, 'code': code0},
                    others=[[a, b] for a, b, _ in ring][-12:])
                break
    if _issues_sig(first) != _issues_sig(second):
        ctx.violation('nondeterministic', 'second call differs: %r vs %r' % (_issues_sig(first)[:3], _issues_sig(second)[:3]), w)
    # listing a sub-tree (grammar.iter_errors(node) for a function, a class, any inner node): total, repeatable, inside the file
    inner = [n for n in walk(m) if getattr(n, 'children', None) and n is not m]
    if inner:
        picks = {id(n): n for n in [inner[len(inner) // 2], inner[len(inner) // 3], inner[-1]]
                 + [n for n in inner if n.type in ('funcdef', 'classdef', 'error_node', 'suite')][:3]}
        for sub in picks.values():
            try:
                a = list(g.iter_errors(sub))
                b = list(g.iter_errors(sub))
            except RecursionError:
                ctx.count('recursion_error_skipped')
                continue
            except Exception:
                continue      # recorded by the exception observer
            ctx.count('subtree_listings')
            ctx.observe('subtree_listing_root_types', sub.type)
            if _issues_sig(a) != _issues_sig(b):
                ctx.violation('nondeterministic', 'second listing of the %s at %s differs' % (sub.type, sub.start_pos), w)
            for i in a:
                if not ((1, 0) <= tuple(i.start_pos) <= tuple(i.end_pos) <= tuple(m.end_pos)) or i.code not in (901, 903):
                    ctx.violation('issue_range', 'listing the %s at %s: issue %r code %r range %s..%s' % (
                        sub.type, sub.start_pos, i.message, i.code, i.start_pos, i.end_pos), w)
    try:
        g.parse(code, error_recovery=False)
        strict_ok = True
    except parso.ParserSyntaxError:
        strict_ok = False
    except Exception:
        return
    if not strict_ok:
        ctx.count('strict_failed')
        if not first:
            ctx.violation('strict_fails_but_empty', 'strict parsing fails but iter_errors is empty', w)


def _failing_examples():
    import importlib.util
    p = harness.REPO + '/test/failing_examples.py'
    try:
        spec = importlib.util.spec_from_file_location('_fe', p)
        mod = importlib.util.module_from_spec(spec)
        spec.loader.exec_module(mod)
        return list(mod.FAILING_EXAMPLES)
    except Exception:
        return []


def run_shard(spec, ctx):
    _install(ctx)
    if spec['kind'] == 'suite':
        return _text.run_repo_suite(ID, ctx)
    if spec['kind'] == 'valid':
        # (mostly) valid programs: semantic snippets, mutations, top-level blocks, derivations, lexical literals
        import random
        from ..gen import valid
        from . import c10
        rng = random.Random(spec['seed'])
        files = G.corpus_files()
        gens = {}
        for i in range(spec['n']):
            if ctx.out_of_time():
                break
            v = harness.VERSIONS[(i + spec['shard']) % 9]
            if v not in gens:
                gens[v] = valid.candidates(rng, files, c10._deriver(v))
            origin, text = next(gens[v])
            ctx.count('valid_program_candidates')
            _judge(ctx, v, text)
        return
    if spec['kind'] == 'other_trees':
        import random
        from . import c04
        rng = random.Random(spec['seed'])
        files = G.corpus_files()
        for v in harness.VERSIONS:
            for e in _EXPRS:
                _judge_eval_input(ctx, v, e)
        for i in range(spec['n']):
            if ctx.out_of_time():
                break
            v = harness.VERSIONS[i % 9]
            if i % 2:
                t = rng.choice(_EXPRS) if rng.random() < .3 else rng.choice(G.split_keep(G.hostile(rng, files)) or ['x']).strip().split('=', 1)[-1].strip()
                _judge_eval_input(ctx, v, t)
            else:
                _judge_history(ctx, v, c04.make_history(rng, files), str(i))
        return
    if spec['kind'] == 'files':
        it = _text.whole_files(spec, ctx)
    elif spec['kind'] == 'examples':
        ex = _failing_examples() + G.RULE_TRIGGERS
        it = ((v, e, 'example') for e in ex for v in harness.VERSIONS)
    else:
        it = _text.cases(spec, ctx, gen=lambda rng, files: G.hostile(rng, files, trig=0.3))
    for v, code, origin in it:
        _judge(ctx, v, code)
    for name in _registered_rules():
        if _fed.get(name):
            ctx.observe('rules_fed', name)
        else:
            ctx.observe('rules_not_fed_in_some_shard', name)
    ctx.count('rule_feeds', sum(_fed.values()))


_EXPRS = ['a', 'f(x=1, x=2)', 'f(**a, *b)', '(yield)', 'await x', 'lambda: (yield)', '[x async for x in y]', 'f"{x!r:>{w}}"', "b'a' 'b'", '*a', 'a := 1', '(a := 1)',
          'x if y else z', '[*a, *b]', '{**a, 1: 2}', 'not a', 'a < b < c', 'f(a for a in b, c)', '...', '__debug__', 'None', 'a.b[0](c)', '"\\N{foo}"', '1_000',
          'lambda a, a: 1', 'lambda *: 1', '[a for a in b if (c := a)]', 'f"{x:{y:{z}}}"', '(a, b) = 1', 'f(lambda: 1 = 2)', 'a if b', '(', '']


def _judge_eval_input(ctx, v, text):
    """trees whose root is no module: grammar.parse(text, error_recovery=False, start_symbol='eval_input')"""
    import parso
    g = parso.load_grammar(version=v)
    try:
        m = g.parse(text, error_recovery=False, start_symbol='eval_input')
    except Exception:
        ctx.count('eval_input_rejected')
        return
    ctx.count('eval_input_trees')
    _state['code'] = text
    w = {'version': v, 'code': text, 'start_symbol': 'eval_input'}
    try:
        a = list(g.iter_errors(m))
        b = list(g.iter_errors(m))
    except RecursionError:
        return
    except Exception as e:
        info = harness.exc_info(e)
        ctx.violation('iter_errors_raised', 'eval_input tree: %s: %s in %s: %s' % (info['type'], info['text'], info['func'], info['line']), w, exc=info)
        return
    if _issues_sig(a) != _issues_sig(b):
        ctx.violation('nondeterministic', 'eval_input tree: second listing differs', w)
    for i in a:
        if i.code not in (901, 903) or not ((1, 0) <= tuple(i.start_pos) <= tuple(i.end_pos) <= tuple(m.end_pos)):
            ctx.violation('issue_range', 'eval_input tree: issue %r code %r range %s..%s' % (i.message, i.code, i.start_pos, i.end_pos), w)


def _judge_history(ctx, v, hist, hid):
    """the listing follows the tree through in-place (diff_cache) updates: after each update the list of the updated module
    must be the list of a fresh parse of the same text; the module was listed before the update, too"""
    import parso
    from parso.cache import parser_cache
    g = parso.load_grammar(version=v)
    path = '/virt/c13/%s.py' % hid
    try:
        for i, text in enumerate(hist):
            try:
                m = g.parse(text, diff_cache=True, path=path)
                f = g.parse(text)
            except RecursionError:
                return
            except Exception:
                ctx.count('parse_raised_not_judged_here')
                return
            if tree_sig(m) != tree_sig(f):
                ctx.count('incremental_tree_differs_not_judged_here')      # C04's business
                return
            _state['code'] = text
            try:
                a = _issues_sig(list(g.iter_errors(m)))
                b = _issues_sig(list(g.iter_errors(f)))
            except RecursionError:
                return
            except Exception:
                return      # recorded by the exception observer
            ctx.count('listings_after_in_place_updates')
            try:
                # the updated module is also the last tree listed before the next update (whatever is remembered about "the last
                # listing" must not survive the update)
                if _issues_sig(list(g.iter_errors(m))) != a:
                    ctx.violation('nondeterministic', 'step %d: listing the updated module again gives another list' % i, {'version': v, 'history': hist[:i + 1]})
                    return
            except Exception:
                return
            if a != b:
                ctx.violation('listing_not_following_the_tree', 'step %d: the module updated in place lists %r, a fresh parse of the same text %r' % (
                    i, [x for x in a if x not in b][:2], [x for x in b if x not in a][:2]), {'version': v, 'history': hist[:i + 1]})
                return
    finally:
        parser_cache.pop(g._hashed, None)


def replay(w, ctx):
    _install(ctx)
    if 'history' in w:
        return _judge_history(ctx, w['version'], w['history'], 'replay')
    if w.get('start_symbol') == 'eval_input':
        return _judge_eval_input(ctx, w['version'], w['code'])
    _judge(ctx, w['version'], w['code'])


def shards(tier, seed):
    s = _text.shards(tier, seed, 48000, 800000)
    nf = 8
    s += [{'kind': 'files', 'shard': i, 'nshards': nf, 'file_stride': 16 if tier == 'quick' else 1,
           'budget_s': 60 if tier == 'quick' else 900} for i in range(nf)]
    s += [{'kind': 'examples'}]
    s += [{'kind': 'valid', 'n': 4000 if tier == 'quick' else 100000, 'budget_s': 60 if tier == 'quick' else 900} for _ in range(4)]
    s += [{'kind': 'other_trees', 'n': 1500 if tier == 'quick' else 60000, 'budget_s': 60 if tier == 'quick' else 900} for _ in range(3)]
    if tier == 'thorough':
        s.append({'kind': 'suite'})
    return s


def floors(tier):
    return {'evaluations': 4000, 'contract_evals:Grammar.iter_errors': 8000, 'lists_nonempty': 2000,
            'lists_semantic_only': 100, 'strict_failed': 2000, 'set:rules_fed': 28, 'subtree_listings': 10000,
            'eval_input_trees': 500, 'listings_after_in_place_updates': 2000}


def extra_coverage(m, tier):
    fed = m['sets'].get('rules_fed', set())
    return {'registered_rules_never_fed': sorted(set(m['sets'].get('rules_not_fed_in_some_shard', set())) - set(fed))}


def install_for_suite(ctx):
    _install(ctx)
