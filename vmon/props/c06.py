"""C06 - the parser accepts every sentence of the grammar and returns its derivation (DESIGN §2 C06).
Workload = random derivations from the start rules, generated from the independent EBNF reader;
oracle = the derivation itself under the collapsing conventions; the real parser engine runs in
token mode (tokens fed straight into Parser.parse) and text mode (Grammar.parse on rendered text),
strict and recovering.  Coverage monitor: every DFAState.transitions dict of the live grammar is
replaced by a counting dict, so the run reports plans taken / plans reachable."""
import ast as pyast
import random

from .. import harness
from ..gen import valid
from ..oracles import ebnf

ID = 'C06'
LEVEL = 'exploration'
RULE = ('(a) bounded-exhaustive derivations: every rule reachable from file_input/eval_input in a cheapest context with every form of its '
        'right-hand side (alternatives, optional parts, 0/1/2 repetitions; capped per rule), one level down each nonterminal child '
        'replaced in turn by forms of its own, and at each child position every token that can begin the child (= every plan of the '
        'parser tables: the run is inconclusive below 95 % of the reachable plans); (b) random derivations (token budgets 4-250, <= 400 tokens) from file_input and eval_input of every shipped grammar, '
        'alternatives chosen with a bias towards not-yet-used (rule, alternative) pairs; each is run (i) in token mode: the token '
        'tuples fed into the real Parser.parse, strict and recovering; (ii) in text mode: rendered with random spellings/'
        'spacing/comments/blank lines/continuations through Grammar.parse(error_recovery=False[, start_symbol]) and with '
        'recovery, counted only if the real tokenizer returns exactly the intended token sequence. Expected tree = the '
        'derivation with single-child collapse, INDENT/DEDENT dropped from suites, params regrouped, lambdef_nocond typed '
        'lambdef. non-trivial = distinct derivation that uses >= 3 distinct compound/rare rules')
ASSUMPTIONS = ['bare NEWLINE statements and start rules that do not consume the end marker are outside the claim (property text)',
               'text-mode cases whose rendering the tokenizer splits differently (f-string context rules) are out of domain and counted']
RARE = {'typedargslist', 'varargslist', 'dictorsetmaker', 'import_from', 'try_stmt', 'fstring_expr', 'fstring_format_spec',
        'with_stmt', 'classdef', 'decorated', 'async_stmt', 'async_funcdef', 'lambdef', 'lambdef_nocond', 'comp_for',
        'sync_comp_for', 'comp_if', 'arglist', 'argument', 'subscriptlist', 'sliceop', 'annassign', 'namedexpr_test',
        'while_stmt', 'for_stmt', 'if_stmt', 'global_stmt', 'nonlocal_stmt', 'assert_stmt', 'raise_stmt', 'del_stmt',
        'yield_expr', 'star_expr', 'type_params', 'type_stmt', 'with_items', 'except_clause', 'testlist_star_expr'}


class Gen:
    """random derivations under a budget of nonterminal expansions; once the budget is used up
    every choice is the cheapest one (fewest tokens), so derivations stay small"""

    def __init__(self, text, rng):
        self.rules = ebnf.read_grammar(text)
        self.rng = rng
        self.cost = {r: 10 ** 6 for r in self.rules}
        self._c = {}
        changed = True
        while changed:
            changed = False
            for r, a in self.rules.items():
                d = self._cost(a, False)
                if d < self.cost[r]:
                    self.cost[r] = d
                    changed = True
        self._memo = True
        self.reserved = set()

        def coll(a):
            if a[0] == 'sym':
                if a[1][0] in '\'"':
                    self.reserved.add(pyast.literal_eval(a[1]))
            elif a[0] in ('seq', 'alt'):
                for x in a[1]:
                    coll(x)
            else:
                coll(a[1])
        for a in self.rules.values():
            coll(a)
        self.used = {}
        self.left = 0
        self._first = {}
        self.first_used = {}
        self.steer = True
        self.depth = 0
        self.forced = 0
        self.ntok = 0

    def _cost(self, a, memo=True):
        if memo:
            c = self._c.get(id(a))
            if c is not None:
                return c
        k = a[0]
        if k == 'sym':
            c = self.cost[a[1]] if a[1] in self.rules else 1
        elif k == 'seq':
            c = sum(self._cost(x, memo) for x in a[1])
        elif k == 'alt':
            c = min(self._cost(x, memo) for x in a[1])
        elif k in ('opt', 'star'):
            c = 0
        else:
            c = self._cost(a[1], memo)
        if memo:
            self._c[id(a)] = c
        return c

    # ---- first-token steering: FIRST sets from the EBNF text, used to force the token that begins a nonterminal
    def nullable(self, a):
        k = a[0]
        if k == 'sym':
            return False
        if k == 'seq':
            return all(self.nullable(x) for x in a[1])
        if k == 'alt':
            return any(self.nullable(x) for x in a[1])
        if k in ('opt', 'star'):
            return True
        return self.nullable(a[1])

    def first(self, a, _stack=()):
        k = a[0]
        key = ('sym', a[1]) if k == 'sym' else id(a)      # symbol nodes may be temporaries: never key them by id
        if key in self._first:
            return self._first[key]
        if k == 'sym':
            if a[1] in self.rules:
                if a[1] in _stack:
                    return set()
                r = self.first(self.rules[a[1]], _stack + (a[1],))
            else:
                r = {a[1]}
        elif k == 'seq':
            r = set()
            for x in a[1]:
                r |= self.first(x, _stack)
                if not self.nullable(x):
                    break
        elif k == 'alt':
            r = set()
            for x in a[1]:
                r |= self.first(x, _stack)
        else:
            r = self.first(a[1], _stack)
        if not _stack:
            self._first[key] = r
        return r

    def _exp_first(self, a, t, budget, rule):
        """expansion of `a` whose first token is t (t must be in first(a))"""
        k = a[0]
        if k == 'sym':
            if a[1] in self.rules:
                return [('node', a[1], self._exp_first(self.rules[a[1]], t, max(budget, self.cost[a[1]]), a[1]))]
            self.ntok += 1
            return [('tok', a[1])]
        if k == 'seq':
            out = []
            forced = False
            for x in a[1]:
                if forced:
                    out += self._exp(x, max(self._cost(x), budget // max(1, len(a[1]))), rule)
                elif t in self.first(x):
                    out += self._exp_first(x, t, budget, rule)
                    forced = True
                # else: x is nullable and skipped (expands to nothing)
            return out
        if k == 'alt':
            ok = [x for x in a[1] if t in self.first(x)]
            x = self.rng.choice(ok)
            self.used[id(x)] = self.used.get(id(x), 0) + 1
            return self._exp_first(x, t, budget, rule)
        if k == 'opt':
            return self._exp_first(a[1], t, budget, rule)
        if k in ('star', 'plus'):
            out = self._exp_first(a[1], t, budget, rule)
            if self.rng.random() < .3 and self._cost(a[1]) <= budget:
                out += self._exp(a[1], budget // 2, rule)
            return out
        raise ValueError(k)

    def _force(self):
        # over-budget choices only while the derivation is still small
        self.forced += 1
        return self.ntok < 150

    def derive(self, rule, budget):
        """derivation of `rule` with at most about `budget` tokens (never less than the rule's minimum)"""
        self.depth += 1
        try:
            return ('node', rule, self._exp(self.rules[rule], max(budget, self.cost[rule]), rule))
        finally:
            self.depth -= 1

    def _exp(self, a, budget, rule):
        k = a[0]
        rng = self.rng
        if k == 'sym':
            if a[1] in self.rules:
                if self.steer and rng.random() < .6:
                    # start this occurrence of the nonterminal with the first token used least often here
                    fs = sorted(self.first(a))
                    if fs:
                        cnt = self.first_used
                        t = min(fs, key=lambda x: (cnt.get((id(a), x), 0), rng.random()))
                        cnt[(id(a), t)] = cnt.get((id(a), t), 0) + 1
                        return self._exp_first(a, t, max(budget, self.cost[a[1]]), rule)
                return [self.derive(a[1], budget)]
            self.ntok += 1
            return [('tok', a[1])]
        if k == 'seq':
            costs = [self._cost(x) for x in a[1]]
            surplus = max(0, budget - sum(costs))
            ws = [0.0 if (x[0] == 'sym' and x[1] not in self.rules) else rng.random() ** 2 for x in a[1]]
            tot = sum(ws) or 1.0
            out = []
            for x, c, w in zip(a[1], costs, ws):
                out += self._exp(x, c + int(surplus * w / tot), rule)
            return out
        if k == 'alt':
            alts = a[1]
            if rule in ('stmt', 'file_input'):
                alts = [x for x in alts if x != ('sym', 'NEWLINE')] or alts    # no bare NEWLINE statement
            ok = [x for x in alts if self._cost(x) <= budget] or [min(alts, key=self._cost)]
            w = [1.0 / (1 + self.used.get(id(x), 0)) ** 0.5 for x in ok]
            x = rng.choices(ok, w)[0]
            self.used[id(x)] = self.used.get(id(x), 0) + 1
            return self._exp(x, budget, rule)
        if k == 'opt':
            c = self._cost(a[1])
            vis = self.used[(id(a), 'v')] = self.used.get((id(a), 'v'), 0) + 1
            tk = self.used.get((id(a), 't'), 0)
            # balance: an optional part that is starved by small budgets deep in the tree is taken anyway now and then
            if c <= budget and rng.random() < .55:
                self.used[(id(a), 't')] = tk + 1
                return self._exp(a[1], max(budget, c), rule)
            return []
        if k in ('star', 'plus'):
            c = max(1, self._cost(a[1]))
            nmin = 1 if k == 'plus' else 0
            if rule == 'file_input' and k == 'star':
                nmin = 1
            n = nmin
            while (n + 1) * c <= budget and n < 5 and rng.random() < .5:
                n += 1
            vis = self.used[(id(a), 'v')] = self.used.get((id(a), 'v'), 0) + 1
            rep = self.used.get((id(a), 'r'), 0)
            if n > nmin:
                self.used[(id(a), 'r')] = rep + 1
            out = []
            left = budget
            for r in range(n):
                share = max(c, (left - (n - r - 1) * c) if r == n - 1 else int((left - (n - r - 1) * c) * rng.random()))
                out += self._exp(a[1], share, rule)
                left -= share
            return out
        raise ValueError(k)


NAMES = ['x', 'y', 'foo', 'bar_1', '_z', '\xe9', 'spam', 'match', 'case', 'type', 'print', 'exec', 'self', 'a1']
NUMBERS = ['0', '1', '2.5', '0x1f', '1_0', '3j', '1e5', '0b101', '0o17', '.5', '7.']
STRINGS = ['"s"', "'t'", 'b"b"', 'r"""x"""', "u'u'", "rb'\\d'", '"""a\nb"""', "'\\n'", '""',
           # one-line strings continued with backslash-newline, the other quote kind early in the text
           '"\'a\' b\\\nc"', "'\"q\\\nr'", 'r"\'\\\nx"', "b'a\"\\\n'", '"x\'y\\\nz"', "'\\\n'"]


def realize(label, rng, T):
    if label[0] in '\'"':
        v = pyast.literal_eval(label)
        return (T.NAME if (v[0].isalpha() or v[0] == '_') else T.OP, v)
    if label == 'NAME':
        return (T.NAME, rng.choice(NAMES))
    if label == 'NUMBER':
        return (T.NUMBER, rng.choice(NUMBERS) if rng.random() < .5 else valid.valid_number(rng))
    if label == 'STRING':
        return (T.STRING, rng.choice(STRINGS))
    if label == 'FSTRING_STRING':
        return (T.FSTRING_STRING, rng.choice(['txt', ' a b ', '{{', 'x}}y', '%d', '=10', '=^5', '>+3']))
    if label == 'NEWLINE':
        return (T.NEWLINE, rng.choice(['\n', '\n', '\n', '\r\n', '\r']))
    return {'INDENT': (T.INDENT, ''), 'DEDENT': (T.DEDENT, ''), 'ENDMARKER': (T.ENDMARKER, ''),
            'FSTRING_START': (T.FSTRING_START, 'f"'), 'FSTRING_END': (T.FSTRING_END, '"')}[label]


def expected(d, toks, reserved, T, root=False):
    """the derivation under the documented conventions (written from the property text)"""
    LEAFT = {T.NUMBER: 'number', T.STRING: 'string', T.NEWLINE: 'newline', T.ENDMARKER: 'endmarker',
             T.FSTRING_START: 'fstring_start', T.FSTRING_STRING: 'fstring_string', T.FSTRING_END: 'fstring_end'}
    if d[0] == 'tok':
        typ, val = toks.pop(0)
        if typ in (T.INDENT, T.DEDENT):
            return ('VIRT',)
        if typ == T.NAME:
            return ('leaf', 'keyword' if val in reserved else 'name', val)
        if typ == T.OP:
            return ('leaf', 'operator', val)
        return ('leaf', LEAFT[typ], val)
    _, rule, ch = d
    kids = [expected(c, toks, reserved, T) for c in ch]
    if rule == 'suite':
        kids = [k for k in kids if k != ('VIRT',)]
    typ = 'lambdef' if rule == 'lambdef_nocond' else rule

    def regroup(items):
        groups, cur = [], []
        for it in items:
            cur.append(it)
            if it == ('leaf', 'operator', ','):
                groups.append(cur)
                cur = []
        if cur:
            groups.append(cur)
        out = []
        for gr in groups:
            if (gr[0] == ('leaf', 'operator', '*') and (len(gr) == 1 or gr[1] == ('leaf', 'operator', ','))) \
                    or gr[0] == ('leaf', 'operator', '/'):
                out += gr
            else:
                out.append(('node', 'param', gr))
        return out

    def items_of(x, listtype):
        return list(x[2]) if x[0] == 'node' and x[1] == listtype else [x]
    if rule == 'parameters' and len(kids) == 3:
        kids = [kids[0]] + regroup(items_of(kids[1], 'typedargslist')) + [kids[2]]
    if typ == 'lambdef' and len(kids) == 4:
        kids = [kids[0]] + regroup(items_of(kids[1], 'varargslist')) + kids[2:]
    if len(kids) == 1 and not root:
        return kids[0]
    return ('node', typ, kids)


def actual(n):
    st = [(n, None)]
    # iterative conversion to nested tuples
    def conv(x):
        if hasattr(x, 'children'):
            return ('node', x.type, [conv(c) for c in x.children])
        return ('leaf', x.type, x.value)
    return conv(n)


def flat(d, out, rules_used):
    if d[0] == 'tok':
        out.append(d[1])
    else:
        rules_used.add(d[1])
        for c in d[2]:
            flat(c, out, rules_used)
    return out


def first_diff(a, b, path='root'):
    if a[0] != b[0] or a[1] != b[1]:
        return '%s: got %r, derivation says %r' % (path, a[:2] if a[0] == 'node' else a, b[:2] if b[0] == 'node' else b)
    if a[0] == 'leaf':
        return None if a == b else '%s: leaf %r vs %r' % (path, a, b)
    if len(a[2]) != len(b[2]):
        return '%s (%s): %d children, derivation has %d: %r vs %r' % (path, a[1], len(a[2]), len(b[2]),
                                                                     [c[1] for c in a[2]][:8], [c[1] for c in b[2]][:8])
    for i, (x, y) in enumerate(zip(a[2], b[2])):
        r = first_diff(x, y, '%s/%s[%d]' % (path, a[1], i))
        if r:
            return r
    return None


class CountingDict(dict):
    __slots__ = ('hits',)

    def __getitem__(self, k):
        v = dict.__getitem__(self, k)
        self.hits.add(k)
        return v


def instrument(pg, start_rules):
    """replace transitions of every state reachable from the start rules; -> list of counting dicts"""
    reach, todo = set(), list(start_rules)
    while todo:
        r = todo.pop()
        if r in reach or r not in pg.nonterminal_to_dfas:
            continue
        reach.add(r)
        for d in pg.nonterminal_to_dfas[r]:
            for lab in d.arcs:
                if lab in pg.nonterminal_to_dfas:
                    todo.append(lab)
    dicts = []
    for r in sorted(reach):
        # canonical state order (BFS over arcs sorted by label): list order depends on object hashes
        dfas = pg.nonterminal_to_dfas[r]
        order, seen = [dfas[0]], {id(dfas[0])}
        for d in order:
            for lab in sorted(d.arcs):
                nd = d.arcs[lab]
                if id(nd) not in seen:
                    seen.add(id(nd))
                    order.append(nd)
        for d in order:
            if not isinstance(d.transitions, CountingDict):
                cd = CountingDict(d.transitions)
                cd.hits = set()
                d.transitions = cd
            dicts.append((r, d.transitions))
    return dicts


def render(real, rng, T):
    """token tuples -> text with random layout"""
    out = []
    level = 0
    at_line_start = True
    in_f = 0
    prev = None
    for typ, val in real:
        if typ == T.INDENT:
            level += 1
            continue
        if typ == T.DEDENT:
            level -= 1
            continue
        if typ == T.ENDMARKER:
            continue
        if typ == T.NEWLINE:
            if rng.random() < .1:
                out.append(rng.choice(['  # c', ' #', '\t# x = 1']))
            out.append(val)
            if rng.random() < .08:
                out.append(rng.choice(['    \n', '# comment\n', '\f\n'] + (['\n'] if val != '\r' else [])))
            at_line_start = True
            prev = None
            continue
        if at_line_start:
            out.append('    ' * level)
            at_line_start = False
        elif in_f:
            if prev is not None and (prev[-1:].isalnum() or prev[-1:] == '_') and (val[:1].isalnum() or val[:1] == '_') \
                    and typ != T.FSTRING_STRING and prev_typ != T.FSTRING_STRING:
                out.append(' ')
        else:
            r = rng.random()
            out.append(' ' if r < .9 else '  ' if r < .95 else ' \\\n  ')
        out.append(val)
        if typ == T.FSTRING_START:
            in_f += 1
        elif typ == T.FSTRING_END:
            in_f -= 1
        prev, prev_typ = val, typ
    return ''.join(out)


class Systematic:
    """Bounded-exhaustive derivations: every rule reachable from the start symbols, in a cheapest context, with every
    *form* of its right-hand side (each alternative; each optional part taken / skipped; each repetition 0/1/2 times --
    the full product when it has at most `cap` members, otherwise all single deviations from the cheapest form plus
    sampled combinations), and, one level down, each nonterminal child replaced in turn by `sub` of its own forms
    (rotating, so that over the forms of the parent all forms of the child are used).  Everything else is expanded in
    the cheapest way, so the derivations are small and the combination under test is what the parser sees."""

    def __init__(self, G, rng, cap=120, sub=2, firsts=True):
        self.G, self.rng, self.cap, self.sub, self.firsts = G, rng, cap, sub, firsts
        self._seen_first = set()
        self.rules = G.rules
        self._forms = {}
        self._min = {}
        self._rot = {}

    # -- forms of a right-hand side: lists of symbols (labels)
    def _variants(self, a):
        k = a[0]
        if k == 'sym':
            return [[a[1]]]
        if k == 'seq':
            out = [[]]
            for x in a[1]:
                vs = self._variants(x)
                out = [p + q for p in out for q in vs]
                if len(out) > 4000:
                    out = self.rng.sample(out, 4000)
            return out
        if k == 'alt':
            out = []
            for x in a[1]:
                out += self._variants(x)
            return out
        if k == 'opt':
            return [[]] + self._variants(a[1])
        vs = self._variants(a[1])
        one = vs
        two = [p + q for p in vs[:6] for q in vs[:6]]
        return ([[]] if k == 'star' else []) + one + two

    def forms(self, rule):
        if rule not in self._forms:
            vs = self._variants(self.rules[rule])
            seen, uniq = set(), []
            for f in vs:
                t = tuple(f)
                if t not in seen and not (rule in ('stmt', 'file_input') and f == ['NEWLINE']):
                    seen.add(t)
                    uniq.append(f)
            uniq.sort(key=lambda f: (sum(self.G.cost.get(x, 1) for x in f), f))
            if len(uniq) > self.cap:
                uniq = uniq[:self.cap // 2] + self.rng.sample(uniq[self.cap // 2:], self.cap - self.cap // 2)
            self._forms[rule] = uniq
        return self._forms[rule]

    def minimal(self, rule):
        """cheapest derivation of a rule (memoised, shared structure is fine: derivations are read-only)"""
        if rule not in self._min:
            self._min[rule] = None
            best = min(self.forms(rule), key=lambda f: sum(self.G.cost.get(x, 1) for x in f))
            self._min[rule] = ('node', rule, [self.minimal(x) if x in self.rules else ('tok', x) for x in best])
        return self._min[rule]

    def contexts(self, starts):
        """rule -> function embedding a derivation of that rule into a cheapest derivation from a start symbol"""
        import heapq
        dist = {s_: 0 for s_ in starts}
        how = {s_: None for s_ in starts}
        pq = [(0, s_) for s_ in starts]
        while pq:
            d0, p_ = heapq.heappop(pq)
            if d0 > dist.get(p_, 1e9):
                continue
            for f in self.forms(p_):
                base = sum(self.G.cost.get(x, 1) for x in f)
                for i, x in enumerate(f):
                    if x in self.rules:
                        c = d0 + base - self.G.cost[x]
                        if c < dist.get(x, 1e9):
                            dist[x] = c
                            how[x] = (p_, f, i)
                            heapq.heappush(pq, (c, x))
        self.how = how
        return how

    def embed(self, rule, d):
        start = rule
        while self.how.get(start) is not None:
            p_, f, i = self.how[start]
            kids = [(d if j == i else (self.minimal(x) if x in self.rules else ('tok', x))) for j, x in enumerate(f)]
            d = ('node', p_, kids)
            start = p_
        return start, d

    def derivations(self, starts):
        self.contexts(starts)
        for rule in sorted(self.how):
            fs = self.forms(rule)
            for f in fs:
                kids = [self.minimal(x) if x in self.rules else ('tok', x) for x in f]
                yield rule, 'form', self.embed(rule, ('node', rule, kids))
                # one level down: each nonterminal child in turn, with some of its own forms
                for i, x in enumerate(f):
                    if x not in self.rules:
                        continue
                    cf = self.forms(x)
                    if len(cf) < 2:
                        continue
                    if self.firsts:
                        # each token that can begin this child, at this place of this form (= one plan of the parser tables)
                        sym = ('sym', x)
                        for t in sorted(self.G.first(sym)):
                            key = (rule, tuple(f[:i]), x, t)
                            if key in self._seen_first:
                                continue
                            self._seen_first.add(key)
                            try:
                                sub = self.G._exp_first(sym, t, self.G.cost[x], rule)[0]
                            except Exception:
                                continue
                            k2 = list(kids)
                            k2[i] = sub
                            yield rule, 'form+first_token', self.embed(rule, ('node', rule, k2))
                    for _ in range(self.sub):
                        r = self._rot[x] = (self._rot.get(x, 0) + 1) % len(cf)
                        sub = ('node', x, [self.minimal(y) if y in self.rules else ('tok', y) for y in cf[r]])
                        k2 = list(kids)
                        k2[i] = sub
                        yield rule, 'form+child', self.embed(rule, ('node', rule, k2))


def judge_derivation(ctx, v, g, G, start, d, rng, dbg=False):
    """run one derivation through the real parser (token mode and text mode, strict and recovering) and compare
    the returned tree with the derivation under the documented conventions"""
    from parso.parser import ParserSyntaxError
    from parso.python.parser import Parser
    from parso.python.token import PythonTokenTypes as T
    from parso.python.tokenize import PythonToken, tokenize
    used = set()
    labels = flat(d, [], used)
    if len(labels) > 400:
        ctx.count('derivations_too_long_skipped')
        return
    real = [realize(l, rng, T) for l in labels]
    exp = expected(d, list(real), G.reserved, T, root=True)
    ctx.count('evaluations')
    ctx.count('tokens_derived', len(real))
    if len(used & RARE) >= 3:
        ctx.nontriv(v + start + repr(real))
    shown = ' '.join(s or t.name for t, s in real)
    w = {'version': v, 'start': start, 'tokens': [[t.name, s] for t, s in real]}
    # ---- token mode
    toks = [PythonToken(t, s, (1, k), '') for k, (t, s) in enumerate(real)]
    for er in (False, True):
        if er and start != 'file_input':
            continue
        try:
            m = Parser(g._pgen_grammar, error_recovery=er, start_nonterminal=start).parse(iter(toks))
        except ParserSyntaxError as e:
            ctx.violation('sentence_rejected', 'token mode (recovery=%s): sentence of %s rejected at %r: %s' % (
                er, start, e.error_leaf.value, shown[:300]), w, mode='token', recovery=er)
            continue
        except RecursionError:
            ctx.count('recursion_error_skipped')
            continue
        except Exception as e:
            info = harness.exc_info(e)
            ctx.violation('parser_raised', 'token mode (recovery=%s): %s: %s in %s' % (er, info['type'], info['text'], info['func']),
                          w, exc=info, mode='token', recovery=er)
            continue
        ctx.count('token_mode_parses')
        df = first_diff(actual(m), exp)
        if df:
            ctx.violation('tree_not_derivation', 'token mode (recovery=%s): %s' % (er, df), w, mode='token', recovery=er)
    # ---- text mode
    src = render(real, rng, T)
    lossless = None
    try:
        toks_ = list(tokenize(src, version_info=g.version_info))
        got = [(t.type, t.string) for t in toks_]
        lossless = ''.join(t.prefix + t.string for t in toks_) == src
    except Exception:
        got = None
    want = [(t, s) for t, s in real]
    if got != want:
        # tokenizer always ends the last logical line: NEWLINE absent only if derivation has none
        ctx.count('text_mode_out_of_domain')
        if got is not None:
            k = next((i for i, (a, b) in enumerate(zip(got, want)) if a != b), min(len(got), len(want)))
            ga = got[k] if k < len(got) else None
            wa = want[k] if k < len(want) else None
            ctx.observe('ood_first_difference', '%s %r -> %s %r' % (wa and wa[0].name, wa and wa[1][:12], ga and ga[0].name, ga and ga[1][:12]))
            # "token sequences the tokenizer can produce" excludes layouts (bare NEWLINE statements, '<>', text inside f-strings), not
            # spellings: a valid name/number/string outside an f-string that does not come back as that one token makes the text
            # unparsable as derived
            if wa is not None and wa[0].name in ('NUMBER', 'STRING', 'NAME') and not any(t.name == 'FSTRING_START' for t, _ in want[:k]):
                ctx.violation('spelling_not_one_token', 'text mode: %s %r of the derivation is tokenized as %s %r in %r' % (
                    wa[0].name, wa[1], ga and ga[0].name, ga and ga[1], src[:120]), dict(w, text=src), mode='text')
        if lossless is False:
            # the domain restriction ("token sequences the tokenizer can produce") presupposes a tokenizer that keeps the text
            ctx.violation('tokenizer_not_lossless', 'text mode: prefix+string of the tokens of %r do not spell the text' % (src[:160],),
                          dict(w, text=src), mode='text')
        if dbg and ctx.counters['text_mode_out_of_domain'] < 5:
            ctx.sample({'ood': src, 'got': repr(got)[:300], 'want': repr(want)[:300]})
        return
    ctx.count('text_mode_in_domain')
    w2 = dict(w, text=src)
    for er in (False, True):
        if er and start != 'file_input':
            continue
        try:
            if er:
                m = g.parse(src)
            else:
                m = g.parse(src, error_recovery=False, start_symbol=start)
        except ParserSyntaxError as e:
            ctx.violation('sentence_rejected', 'text mode (recovery=%s): %r rejected at %r %s' % (er, src[:200], e.error_leaf.value, e.error_leaf.start_pos),
                          w2, mode='text', recovery=er)
            continue
        except RecursionError:
            ctx.count('recursion_error_skipped')
            continue
        except Exception as e:
            info = harness.exc_info(e)
            ctx.violation('parser_raised', 'text mode (recovery=%s): %s: %s in %s' % (er, info['type'], info['text'], info['func']),
                          w2, exc=info, mode='text', recovery=er)
            continue
        ctx.count('text_mode_parses')
        df = first_diff(actual(m), exp)
        if df:
            ctx.violation('tree_not_derivation', 'text mode (recovery=%s): %s' % (er, df), w2, mode='text', recovery=er)
    if len(src) < 100:
        ctx.sample({'version': v, 'start': start, 'text': src})


def run_shard(spec, ctx):
    import parso
    rng = random.Random(spec['seed'])
    v = spec['version']
    with open('%s/parso/python/grammar%s.txt' % (harness.REPO, v.replace('.', ''))) as f:
        text = f.read()
    G = Gen(text, rng)
    g = parso.load_grammar(version=v)
    dicts = instrument(g._pgen_grammar, ['file_input', 'eval_input'])
    if spec['kind'] == 'systematic':
        G.steer = False
        sy = Systematic(G, rng, cap=spec.get('cap', 120), sub=spec.get('sub', 2))
        part, parts = spec.get('part', 0), spec.get('parts', 1)
        n = 0
        for rule, what, (start, d) in sy.derivations(['file_input', 'eval_input']):
            n += 1
            if n % parts != part:
                continue
            if ctx.out_of_time():
                ctx.count('stopped_by_time_budget')
                break
            ctx.count('systematic_derivations')
            ctx.count('systematic:' + what)
            ctx.observe('systematic_rules:' + v, rule)
            judge_derivation(ctx, v, g, G, start, d, rng)
        ctx.counters['systematic_enumerated:' + v] = n
    for i in range(spec['n'] if spec['kind'] != 'systematic' else 0):
        if ctx.out_of_time():
            ctx.count('stopped_by_time_budget')
            break
        start = 'eval_input' if i % 6 == 5 else 'file_input'
        G.forced = G.ntok = 0
        d = G.derive(start, rng.choice([4, 10, 25, 60, 120, 250]))
        judge_derivation(ctx, v, g, G, start, d, rng, spec.get('debug'))
    names = {}
    for r, cd in dicts:
        names.setdefault(r, []).append(cd)
    for r, cds in names.items():
        for si, cd in enumerate(cds):
            if si == 0 and r not in ('file_input', 'eval_input'):
                continue     # the initial state of a pushed rule is never current: plans push successor states
            for k in cd:
                key = '%s#%d:%s' % (r, si, getattr(k, 'value', None) or getattr(k, 'name', k))
                ctx.observe('plans_reachable:' + v, key)
                if k in cd.hits:
                    ctx.observe('plans_taken:' + v, key)


def replay(w, ctx):
    import parso
    from parso.parser import ParserSyntaxError
    from parso.python.parser import Parser
    from parso.python.token import PythonTokenTypes as T
    from parso.python.tokenize import PythonToken
    g = parso.load_grammar(version=w['version'])
    real = [(getattr(T, t), s) for t, s in w['tokens']]
    toks = [PythonToken(t, s, (1, k), '') for k, (t, s) in enumerate(real)]
    ctx.count('evaluations')
    for er in (False, True):
        if er and w['start'] != 'file_input':
            continue
        try:
            Parser(g._pgen_grammar, error_recovery=er, start_nonterminal=w['start']).parse(iter(toks))
        except ParserSyntaxError as e:
            ctx.violation('sentence_rejected', 'token mode replay: rejected at %r' % e.error_leaf.value, w)
        except Exception as e:
            ctx.violation('parser_raised', repr(e), w)
    if w.get('text'):
        try:
            g.parse(w['text'], error_recovery=False, start_symbol=w['start'])
        except ParserSyntaxError as e:
            ctx.violation('sentence_rejected', 'text mode replay: rejected at %r' % e.error_leaf.value, w)
    # tree comparison needs the derivation, which a token list does not carry: replay re-checks acceptance only


def shards(tier, seed):
    n = 200 if tier == 'quick' else 12000
    out = []
    for v in harness.VERSIONS:
        for k in range(1 if tier == 'quick' else 4):
            out.append({'kind': 'derive', 'version': v, 'n': n, 'budget_s': 45 if tier == 'quick' else 1500})
        parts = 2 if tier == 'quick' else 3
        for k in range(parts):
            out.append({'kind': 'systematic', 'version': v, 'n': 0, 'part': k, 'parts': parts, 'cap': 250 if tier == 'quick' else 2500,
                        'sub': 2 if tier == 'quick' else 12, 'budget_s': 150 if tier == 'quick' else 3000})
    return out


def floors(tier):
    return {'evaluations': 3000, 'token_mode_parses': 5000, 'text_mode_parses': 1000, 'min_plan_coverage_percent': 95,
            'systematic_derivations': 40000}


def post_merge(m, tier):
    """derived counters for the reach floors"""
    pc = []
    for v in harness.VERSIONS:
        allp = set(m['sets'].get('plans_reachable:' + v, ()))
        taken = set(m['sets'].get('plans_taken:' + v, ()))
        if allp:
            pc.append(100 * len(taken) // len(allp))
    m['counters']['min_plan_coverage_percent'] = min(pc) if len(pc) == len(harness.VERSIONS) else 0


def extra_coverage(m, tier):
    out = {'plan_coverage': {}}
    for v in harness.VERSIONS:
        allp = set(m['sets'].get('plans_reachable:' + v, ()))
        taken = set(m['sets'].get('plans_taken:' + v, ()))
        if allp:
            out['plan_coverage'][v] = {'reachable': len(allp), 'taken': len(taken), 'percent': round(100.0 * len(taken) / len(allp), 1),
                                       'untaken_examples': sorted(allp - taken)[:25]}
    out['plan_coverage_note'] = ('plan = (rule, state index, first token) entry of a DFAState.transitions table that can be the current state (non-initial states, and '
                                 'the initial states of the start rules) reachable from file_input/'
                                 'eval_input; taken = looked up successfully by the real parser engine during this run')
    return out
