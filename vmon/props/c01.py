"""C01 - lossless round-trip (DESIGN §2 C01).
Deciding monitor: post-condition contract on the real Grammar.parse."""
import random

from .. import contracts, harness
from ..gen import text as G
from ..oracles import treechecks
from ..oracles.common import walk
from . import _text

ID = 'C01'
LEVEL = 'exploration'
RULE = ('cases = hostile mix (token-soup garbage, f-string garbage, corpus slices with 0-3 injected fragments, '
        'rule-trigger snippets), whole corpus files and bytes inputs, versions cycled; judged by a contract on '
        'Grammar.parse: root.get_code()==text, leaf prefix+value tile the text, every node (all if <2000, else 300 '
        'sampled) reproduces exactly its slice with and without prefix. non-trivial = distinct input containing an '
        'error leaf/node, \\r, form feed, BOM, backslash continuation, f-string or non-ASCII')
ASSUMPTIONS = ['for bytes input the decoded text is what parso.utils.python_bytes_to_unicode returns (its '
               'correctness is C15)', 'parso imported from the working tree of /repo (asserted)']

_state = {}


def _post(result, args, kwargs, old):
    ctx = _state.get('ctx')
    if ctx is None or not kwargs.get('error_recovery', True) or kwargs.get('start_symbol') not in (None, 'file_input'):
        return
    code = args[1] if len(args) > 1 else kwargs.get('code')
    if code is None:
        return
    if isinstance(code, bytes):
        from parso.utils import python_bytes_to_unicode
        text = python_bytes_to_unicode(code)
        ctx.count('bytes_inputs')
    else:
        text = code
    ctx.count('evaluations')
    ctx.count('contract_evals:Grammar.parse')
    v = _ver(args)
    viol = treechecks.check_roundtrip(result, text, _state['rng'])
    for kind, msg in viol:
        ctx.violation(kind, msg, {'version': v, 'code': code})
    nt = ('\r' in text or '\f' in text or '﻿' in text or '\\\n' in text or '\\\r' in text
          or any(ord(c) > 127 for c in text[:2000]))
    if not nt:
        for n in walk(result):
            if n.type in ('error_node', 'error_leaf', 'fstring'):
                nt = True
                break
    if nt:
        ctx.nontriv(v + '\0' + text)
    if len(text) < 120:
        ctx.sample({'version': v, 'code': code, 'leaves': sum(1 for n in walk(result) if not hasattr(n, 'children'))})


def _install(ctx, seed):
    if _state.get('installed'):
        _state['ctx'] = ctx
        return
    _state['installed'] = True
    import parso.grammar
    _state['ctx'] = ctx
    _state['rng'] = random.Random(seed)
    contracts.install(parso.grammar.Grammar, 'parse', _post)


def _bytes_case(rng, text):
    r = rng.random()
    if r < .5:
        return text.encode('utf-8', 'replace')
    if r < .7:
        return b'\xef\xbb\xbf' + text.encode('utf-8', 'replace')
    if r < .85:
        return b'# -*- coding: latin-1 -*-\n' + text.encode('latin-1', 'replace')
    return b'#!/usr/bin/python\n# vim: set fileencoding=cp1252 :\n' + text.encode('cp1252', 'replace')


def run_shard(spec, ctx):
    import parso
    _install(ctx, spec['seed'])
    rng = random.Random(spec['seed'] + 1)
    if spec['kind'] == 'suite':
        return _text.run_repo_suite(ID, ctx)
    it = _text.whole_files(spec, ctx) if spec['kind'] == 'files' else _text.cases(spec, ctx)
    for v, code, origin in it:
        _state['version'] = v
        g = parso.load_grammar(version=v)
        inp = code
        if rng.random() < .12:
            inp = _bytes_case(rng, code)
        try:
            g.parse(inp)
        except RecursionError:
            ctx.count('recursion_error_skipped')
        except Exception as e:
            ctx.count('parse_raised_not_judged_here')  # totality is C02's property


def replay(w, ctx):
    import parso
    _install(ctx, 0)
    _state['version'] = w['version']
    parso.load_grammar(version=w['version']).parse(w['code'])


def shards(tier, seed):
    s = _text.shards(tier, seed, 96000, 1200000)
    nf = 16
    s += [{'kind': 'files', 'shard': i, 'nshards': nf, 'file_stride': 12 if tier == 'quick' else 1,
           'budget_s': 60 if tier == 'quick' else 900} for i in range(nf)]
    if tier == 'thorough':
        s.append({'kind': 'suite'})
    return s


def floors(tier):
    return {'evaluations': 2000, 'contract_evals:Grammar.parse': 2000}


def _ver(args):
    gv = getattr(args[0], 'version_info', None) if args else None
    return '%d.%d' % (gv.major, gv.minor) if gv is not None else _state.get('version')


def install_for_suite(ctx):
    _install(ctx, 0)
