"""C04 - incremental re-parse equals a fresh parse after any edit history (DESIGN §2 C04).
Monitors: recording contract on the real DiffParser.update (reads its live copy/parse counters),
reference model = fresh parse after *every* step, library's own DEBUG_DIFF_PARSER asserts on."""
import random

from .. import contracts, harness
from ..gen import text as G
from ..oracles.common import has_error, parents_ok, sig_diff, tree_sig, walk
from . import _text

ID = 'C04'
LEVEL = 'exploration'
RULE = ('histories T0->...->Tn (n<=8) under one virtual path with diff_cache=True: line delete/duplicate/replace, in-line '
        'fragment insertion, block delete/indent/dedent/move, undo to an earlier text, BOM toggle, final-newline / newline-'
        'style toggle, template-line insertion, over corpus slices (45%), structured template programs (35%) and garbage (20%), versions cycled; after every step the returned module '
        'is compared with a fresh parse of that text: signature (class,type,value,prefix,start,end,token type), parent '
        'links, get_code(), get_used_names() and the facts derived by the helpers (is_generator, params, return/raise statements, is_definition, import names, scope listings, doc nodes), all queried on the cached module before each update; update must not raise. '
        'non-trivial = distinct step in which the diff parser both copied and re-parsed nodes, or that crossed an error node')
ASSUMPTIONS = ['fresh non-incremental parse of the same text is the reference model',
               'parso.python.diff.DEBUG_DIFF_PARSER is switched on by the harness as a second, in-library alarm']
_state = {}


def _used_names(m):
    out = {}
    for name, leaves_ in m.get_used_names().items():
        out[name] = sorted(tuple(l.start_pos) for l in leaves_)
    return out


def facts_sig(m):
    """facts the tree's helpers derive from it (some helpers memoise on the nodes): same for equal trees"""
    out = []
    for n in walk(m):
        t = n.type
        try:
            if t == 'funcdef':
                out.append((n.start_pos, 'funcdef', n.is_generator(), [p.name.value for p in n.get_params()],
                            len(list(n.iter_return_stmts())), len(list(n.iter_raise_stmts())), n.annotation is not None,
                            n.get_doc_node() is not None))
            elif t == 'lambdef':
                out.append((n.start_pos, 'lambdef', [p.name.value for p in n.get_params()]))
            elif t == 'classdef':
                out.append((n.start_pos, 'classdef', n.name.value, n.get_doc_node() is not None,
                            sorted(f.name.value for f in n.iter_funcdefs())))
            elif t == 'name':
                out.append((n.start_pos, 'name', n.is_definition()))
            elif t in ('import_name', 'import_from'):
                out.append((n.start_pos, t, [x.value for x in n.get_defined_names()], n.level))
            elif t == 'file_input':
                out.append(('module', sorted(f.name.value for f in n.iter_funcdefs()), sorted(c.name.value for c in n.iter_classdefs()),
                            len(list(n.iter_imports())), n.get_doc_node() is not None))
        except RecursionError:
            raise
        except Exception as e:       # helpers are not total on recovered trees; equal trees must fail equally
            out.append((getattr(n, 'start_pos', None), t, 'EXC', type(e).__name__))
    return out


def _post(result, args, kwargs, old):
    ctx = _state.get('ctx')
    if ctx is None:
        return
    dp = args[0]
    ctx.count('contract_evals:DiffParser.update')
    ctx.count('nodes_copied', dp._copy_count)
    ctx.count('parser_runs', dp._parser_count)
    _state['last_counts'] = (dp._copy_count, dp._parser_count)
    new_lines = kwargs.get('new_lines') if 'new_lines' in kwargs else args[2]
    w = _state.get('w')
    if result.get_code() != ''.join(new_lines):
        ctx.violation('update_code', 'module returned by DiffParser.update does not reproduce the new text', w)
    p = parents_ok(result)
    if p:
        ctx.violation('update_parents', p, w)


def _on_raise(exc, args, kwargs):
    ctx = _state.get('ctx')
    if ctx is None:
        return
    info = harness.exc_info(exc)
    _state['raised'] = True
    kind = 'debug_assert' if info['type'] == 'AssertionError' and info['func'] in ('update', '_assert_nodes_are_equal', '_assert_valid_graph') else 'update_raised'
    ctx.violation(kind, '%s: %s in %s: %s' % (info['type'], info['text'][:120], info['func'], info['line']), _state.get('w'), exc=info)


def _install(ctx):
    if _state.get('installed'):
        _state['ctx'] = ctx
        return
    _state['installed'] = True
    import parso.python.diff as D
    _state['ctx'] = ctx
    D.DEBUG_DIFF_PARSER = True
    D.print = lambda *a, **k: None     # the library prints its debug message before re-raising
    contracts.install(D.DiffParser, 'update', _post, on_raise=_on_raise)


def _crowd(g, recent):
    """the in-memory cache of a long-running process: 650 other modules, used just now or 20 minutes ago"""
    import pathlib
    import time
    from parso.cache import _NodeCacheItem, parser_cache
    filler = _state.get('filler')
    if filler is None:
        filler = _state['filler'] = g.parse('')
    t = time.time() - (0 if recent else 1200)
    d = parser_cache.setdefault(g._hashed, {})
    for k in range(650):
        d[pathlib.Path('/virt/c04/filler%d.py' % k)] = _NodeCacheItem(filler, [''], t)


def _run_history(ctx, v, hist, hid, crowd_at=None, crowd_recent=True):
    import parso
    from parso.cache import parser_cache
    g = parso.load_grammar(version=v)
    path = '/virt/c04/%s.py' % hid
    try:
        for i, text in enumerate(hist):
            if crowd_at is not None and i == crowd_at:
                _crowd(g, crowd_recent)
                ctx.count('histories_in_a_crowded_memory_cache')
            w = {'version': v, 'history': hist[:i + 1]}
            if crowd_at is not None:
                w.update(crowd_at=crowd_at, crowd_recent=crowd_recent)
            _state['w'] = w
            _state['raised'] = False
            _state['last_counts'] = None
            try:
                if i:
                    import pathlib
                    cached = parser_cache.get(g._hashed, {}).get(pathlib.Path(path))
                    if cached is not None:
                        cached.node.get_used_names()     # populate the derived index on the old tree
                        facts_sig(cached.node)           # and whatever the helpers memoise on the nodes
                        ctx.count('used_names_primed_on_old_tree')
                m = g.parse(text, diff_cache=True, path=path)
            except RecursionError:
                ctx.count('recursion_error_skipped')
                return
            except Exception as e:
                if not _state['raised']:
                    info = harness.exc_info(e)
                    ctx.violation('parse_raised', '%s: %s in %s: %s' % (info['type'], info['text'][:120], info['func'], info['line']), w, exc=info)
                return
            if not i:
                continue
            ctx.count('evaluations')
            try:
                f = g.parse(text)
            except RecursionError:
                return
            d = sig_diff(tree_sig(m), tree_sig(f))
            if d:
                ctx.violation('tree_differs', 'step %d: incremental tree differs from a fresh parse: %s' % (i, d), w)
                return
            if m.get_code() != text:
                ctx.violation('code_differs', 'step %d: get_code() of the incremental tree is not the text' % i, w)
                return
            p = parents_ok(m)
            if p:
                ctx.violation('parents', 'step %d: %s' % (i, p), w)
                return
            try:
                un, uf = _used_names(m), _used_names(f)
            except Exception as e:
                info = harness.exc_info(e)
                ctx.violation('used_names_raised', '%s in %s' % (info['type'], info['func']), w, exc=info)
                return
            if un != uf:
                k = next(k for k in set(un) | set(uf) if un.get(k) != uf.get(k))
                ctx.violation('used_names_stale', 'step %d: get_used_names()[%r] = %r, fresh tree %r' % (i, k, un.get(k), uf.get(k)), w)
                return
            fm, ff = facts_sig(m), facts_sig(f)
            ctx.count('helper_facts_compared', len(ff))
            if fm != ff:
                k = next((a, b) for a, b in zip(fm + [None], ff + [None]) if a != b)
                ctx.violation('derived_facts_stale', 'step %d: a helper reports %r on the incremental tree, %r on a fresh tree' % (i, k[0], k[1]), w)
                return
            c = _state['last_counts']
            if c is None:
                ctx.count('steps_served_without_update')
            elif (c[0] > 0 and c[1] > 0) or has_error(m):
                ctx.nontriv(v + '\0' + hist[i - 1] + '\0' + text)
                if c[0] > 0 and c[1] > 0:
                    ctx.count('steps_copy_and_parse')
            if c and c[0] and len(text) < 120 and len(hist[i - 1]) < 120:
                ctx.sample({'version': v, 'old': hist[i - 1], 'new': text, 'copied': c[0], 'parser_runs': c[1]})
    finally:
        parser_cache.pop(g._hashed, None)


def make_history(rng, files):
    r = rng.random()
    if r < .45:
        base = G.corpus_slice(rng, files, inject=(0, 1))
    elif r < .8:
        base = G.structured_program(rng)
    else:
        base = G.mixed(rng)
    if rng.random() < .12:
        base = ''.join(G.inflate(G.split_keep(base), rng))
    hist = [base]
    cur = G.split_keep(base)
    orig = cur
    for _ in range(rng.randint(1, 8)):
        r = rng.random()
        if r < .15:
            new = rng.choice([orig, G.split_keep(rng.choice(hist))])
        elif r < .30:
            new = _edit_tail(cur, rng)
        elif r < .42 and cur:
            # the most ordinary edit: one more statement in the block that ends here (same indentation as the line before),
            # or one level deeper after a line ending in a colon
            from ..gen.structured import ONELINERS
            k = rng.randrange(len(cur))
            prev = cur[k]
            ind = prev[:len(prev) - len(prev.lstrip(' \t'))]
            if prev.rstrip().endswith(':') and rng.random() < .6:
                ind += '    '
            nl = '\n' if not prev.endswith(('\r\n', '\r')) else ('\r\n' if prev.endswith('\r\n') else '\r')
            if not prev.endswith(('\n', '\r')):
                cur = cur[:k] + [prev + nl] + cur[k + 1:]
            new = cur[:k + 1] + [ind + rng.choice(ONELINERS) + nl for _ in range(rng.choice([1, 1, 2]))] + cur[k + 1:]
        else:
            new = G.mutate_lines(cur, rng)
        hist.append(''.join(new))
        cur = new
    # the whole history in one line-ending style: LF as generated, or CRLF, or bare CR (old Mac), which parso also splits at
    r = rng.random()
    if r < .24:
        nl = '\r' if r < .12 else '\r\n'
        hist = [t.replace('\r\n', '\n').replace('\r', '\n').replace('\n', nl) for t in hist]
    return hist


_TAILS = ['foo\\\n', '+ b\n', 'x = 1 \\\n', '\\\n', 'foo\\', '    + c\n', 'pass\n', '...', ')\n', 'if x: y\\\n', '    z\n', '# c\\\n', "'''\n", '"\\\n']


def _edit_tail(lines, rng):
    """edits at the end of the file: where the end marker's prefix, a missing NEWLINE and pending DEDENTs meet"""
    lines = list(lines) or ['']
    r = rng.random()
    if r < .25:
        lines[-1] = lines[-1].rstrip('\r\n')                      # drop the final line break
    elif r < .45:
        lines[-1] = lines[-1].rstrip('\r\n') + ' \\\n'            # the last line now ends in a continuation
    elif r < .6 and len(lines) > 1:
        lines.pop()
    else:
        if lines[-1] and not lines[-1].endswith(('\n', '\r')):
            lines[-1] += '\n'
        lines.append(rng.choice(_TAILS))
    return lines


def run_shard(spec, ctx):
    _install(ctx)
    rng = random.Random(spec['seed'])
    files = G.corpus_files()
    if spec['kind'] == 'files':
        # whole files with a few edits
        mine = files[spec['shard']::spec['nshards']][::spec.get('file_stride', 1)]
        for k, f in enumerate(mine):
            if ctx.out_of_time():
                break
            t = G.file_text(f)
            if not t or len(t) > 150000:
                continue
            hist = [t]
            cur = G.split_keep(t)
            for _ in range(rng.randint(1, 4)):
                cur = G.mutate_lines(cur, rng)
                hist.append(''.join(cur))
            if rng.random() < .5:
                hist.append(t)
            ctx.count('whole_file_histories')
            _run_history(ctx, harness.VERSIONS[(k + spec['shard']) % 9], hist, 'f%d' % k)
        return
    for i in range(spec['n']):
        if ctx.out_of_time():
            ctx.count('stopped_by_time_budget')
            break
        v = harness.VERSIONS[(i + spec['shard']) % 9]
        ctx.count('histories')
        hist = make_history(rng, files)
        if any('\r' in t.replace('\r\n', '') for t in hist):
            ctx.count('histories_with_bare_cr_line_ends')
        if rng.random() < .15:
            _run_history(ctx, v, hist, str(i), crowd_at=rng.randint(1, max(1, len(hist) - 2)), crowd_recent=rng.random() < .7)
        else:
            _run_history(ctx, v, hist, str(i))


def replay(w, ctx):
    _install(ctx)
    _run_history(ctx, w['version'], w['history'], 'replay', crowd_at=w.get('crowd_at'), crowd_recent=w.get('crowd_recent', True))


def shards(tier, seed):
    s = _text.shards(tier, seed, 8000, 300000, budget_quick=90, budget_thorough=1500)
    nf = 16
    s += [{'kind': 'files', 'shard': i, 'nshards': nf, 'file_stride': 30 if tier == 'quick' else 1,
           'budget_s': 60 if tier == 'quick' else 1500} for i in range(nf)]
    return s


def floors(tier):
    return {'evaluations': 5000, 'contract_evals:DiffParser.update': 4000, 'steps_copy_and_parse': 1500, 'nodes_copied': 2000, 'used_names_primed_on_old_tree': 4000,
            'histories_in_a_crowded_memory_cache': 300, 'histories_with_bare_cr_line_ends': 300}
