"""C12 - no false syntax errors (DESIGN §2 C12).  Reference-model monitor: CPython V (and 3.8 for
sense (a)) compile servers; parso side observed through a recording contract on Grammar.iter_errors."""
import random
import re

from .. import contracts, harness
from ..gen import text as G
from ..gen import valid
from ..oracles.common import walk
from ..oracles.cpyref import RefServer
from . import c10 as _c10

ID = 'C12'
LEVEL = 'exploration'
RULE = ('programs = the standard library of each reference interpreter (quick: every 12th file) plus generated programs '
        '(semantic snippets, top-level blocks of real files, token-level mutations, grammar derivations) that CPython V '
        'compiles; grammar 3.14 judged by 3.13. (a) if CPython 3.8 compiles it too: parso(V) must give no error node/leaf '
        'and no issue; (b) if parso(V) gives no error node/leaf: iter_errors must be empty. non-trivial = distinct '
        'program with >= 200 tokens or a construct from the semantic-rule list (star/annotated/augmented targets, '
        'global/nonlocal, yield/await/return, f-string, __future__, lambda parameters, walrus/async comprehension)')
ASSUMPTIONS = ['compile(src, name, "exec") of the reference interpreter, warnings ignored, decides validity',
               '"syntax common to V and the last LL(1) CPython" = also compiled by the 3.8 interpreter']
_state = {}
SEM = ('global ', 'nonlocal ', 'yield', 'await ', 'return', 'f"', "f'", '__future__', 'lambda', ':=', 'async ', '*', 'del ', 'with ')


def _norm(msg):
    import re
    return re.sub(r"'[^']*'", "'_'", msg.replace('SyntaxError: ', '').replace('IndentationError: ', 'Indent: '))[:70]


def _post(result, args, kwargs, old):
    _state['issues'] = list(result)
    ctx = _state.get('ctx')
    if ctx is not None:
        ctx.count('contract_evals:Grammar.iter_errors')


def _install(ctx):
    if _state.get('installed'):
        _state['ctx'] = ctx
        return
    _state['installed'] = True
    import parso.grammar
    _state['ctx'] = ctx
    contracts.install(parso.grammar.Grammar, 'iter_errors', _post)


def _ancestors(m, pos):
    try:
        leaf = m.get_leaf_for_position(tuple(pos), include_prefixes=True)
        if leaf is not None and tuple(leaf.end_pos) == tuple(pos) and tuple(leaf.start_pos) != tuple(pos) and leaf.get_next_leaf() is not None:
            leaf = leaf.get_next_leaf()     # the position is the start of the next leaf, not the end of this one
    except Exception:
        return [], None
    out = []
    n = leaf
    while n is not None:
        out.append(n.type)
        n = n.parent
    return out, (leaf.value if leaf is not None else None)


FALSE_CONST = ('False', '0', 'None', '""', "''", '0.0', '0j', '()', '__debug__')


def _mech(m, pos):
    """structural facts around an issue position, used only by the known-finding classifiers"""
    d = {}
    try:
        leaf = m.get_leaf_for_position(tuple(pos), include_prefixes=True)
        if leaf is not None and tuple(leaf.end_pos) == tuple(pos) and tuple(leaf.start_pos) != tuple(pos) and leaf.get_next_leaf() is not None:
            leaf = leaf.get_next_leaf()
    except Exception:
        return d
    # innermost scope kind
    n = leaf.parent
    scope = None
    while n is not None:
        if n.type in ('funcdef', 'lambdef', 'classdef'):
            scope = n
            break
        n = n.parent
    d['innermost_scope'] = scope.type if scope is not None else 'module'
    # is the position inside a generator expression (any enclosing one up to the scope)?
    def is_genexp(a):
        if a.type == 'atom' and a.children[0] == '(' and len(a.children) == 3:
            inner = a.children[1]
            return inner.type == 'testlist_comp' and any(c.type in ('comp_for', 'sync_comp_for') for c in inner.children)
        if a.type == 'argument':
            return any(c.type in ('comp_for', 'sync_comp_for') for c in a.children)
        return False
    n = leaf if leaf.type != 'operator' else leaf.parent
    d['genexp'] = False
    while n is not None and n is not scope:
        if hasattr(n, 'children') and is_genexp(n):
            d['genexp'] = True
            break
        n = n.parent
    # inside the element/condition part of any comprehension (list, set, dict, generator) up to the scope?
    n = leaf if leaf.type != 'operator' else leaf.parent
    d['in_comprehension'] = False
    while n is not None and n is not scope:
        if n.type in ('testlist_comp', 'dictorsetmaker', 'argument') and any(c.type in ('comp_for', 'sync_comp_for') for c in n.children):
            d['in_comprehension'] = True
            d['innermost_comprehension'] = 'genexp' if (n.type == 'argument' or (n.type == 'testlist_comp' and n.parent.children[0] == '(')) else 'list_set_dict'
            break
        n = n.parent
    # facts about the innermost function: an await inside a local annotation (CPython's symbol table then treats the function as a
    # coroutine although the annotation is never compiled); are all its yields inside comprehensions (own scopes up to 3.7)?
    if scope is not None and scope.type == 'funcdef':
        def inside(x, types, stop):
            x = x.parent
            while x is not None and x is not stop:
                if x.type in types:
                    return x
                x = x.parent
            return None
        st, aw_ann, ys, ys_comp = [scope.children[-1]], False, 0, 0
        while st:
            x = st.pop()
            if x.type in ('funcdef', 'classdef', 'lambdef') and x is not scope:
                continue
            if x.type == 'keyword' and x.value == 'await':
                a = inside(x, ('annassign',), scope)
                if a is not None and len(a.children) > 1 and a.children[1].start_pos <= x.start_pos < a.children[1].end_pos:
                    aw_ann = True
            if x.type == 'keyword' and x.value == 'yield':
                ys += 1
                c = inside(x, ('testlist_comp', 'dictorsetmaker', 'argument'), scope)
                while c is not None and not any(ch.type in ('comp_for', 'sync_comp_for') for ch in c.children):
                    c = inside(c, ('testlist_comp', 'dictorsetmaker', 'argument'), scope)
                if c is not None:
                    ys_comp += 1
            st.extend(getattr(x, 'children', ()) or ())
        d['scope_has_await_in_local_annotation'] = aw_ann
        d['scope_yields'] = ys
        d['scope_yields_in_comprehensions'] = ys_comp
    # dead code: inside an if/while branch that a constant test rules out
    def const(t):
        """truth value of a test made only of literals and operators (what a constant folder can decide), else None"""
        import ast as _ast
        try:
            tree = _ast.parse('(' + t.get_code(include_prefix=False) + '\n)', mode='eval')
        except Exception:
            return None
        ok = (_ast.Expression, _ast.Constant, _ast.UnaryOp, _ast.BinOp, _ast.BoolOp, _ast.Compare, _ast.Tuple, _ast.operator, _ast.unaryop,
              _ast.boolop, _ast.cmpop, _ast.expr_context)
        if not all(isinstance(x, ok) for x in _ast.walk(tree)):
            return None
        try:
            return bool(eval(compile(tree, '<const>', 'eval'), {'__builtins__': {}}))
        except Exception:
            return None
    n = leaf.parent
    dead = False
    while n is not None and not dead:
        if n.type in ('if_stmt', 'while_stmt'):
            ch = n.children
            earlier_true = False
            k = 0
            while k < len(ch):
                c = ch[k]
                if getattr(c, 'value', None) in ('if', 'elif', 'while'):
                    t, suite = ch[k + 1], ch[k + 3]
                    tv = const(t)
                    if suite.start_pos <= leaf.start_pos <= suite.end_pos and (tv is False or earlier_true):
                        dead = True
                    if tv is True and n.type == 'if_stmt':
                        earlier_true = True
                    k += 4
                elif getattr(c, 'value', None) == 'else':
                    suite = ch[k + 2]
                    if suite.start_pos <= leaf.start_pos <= suite.end_pos and earlier_true:
                        dead = True
                    k += 3
                else:
                    k += 1
        n = n.parent
    d['in_constant_false_block'] = dead
    # earlier occurrences of the same name in the same scope
    if leaf.type == 'name':
        root = scope if scope is not None else m
        occ = [x for x in walk(root) if x.type == 'name' and x.value == leaf.value and x.start_pos < leaf.start_pos]
        d['earlier_occurrences'] = len(occ)
        def kind_of(x):
            if x.search_ancestor('import_name', 'import_from') is not None:
                return 'import'
            if x.parent.type in ('global_stmt', 'nonlocal_stmt'):
                return 'declaration'
            if x.search_ancestor('type_params') is not None:
                return 'type_param'
            if x.parent is root and root.type in ('funcdef', 'classdef') and len(root.children) > 1 and root.children[1] is x:
                return 'own_name_of_scope'      # bound in the enclosing scope, not in this one
            a, prev = x.parent, x
            while a is not None and a is not root:
                if a.type == 'lambdef':
                    return 'lambda'
                if a.type in ('param', 'parameters'):
                    return 'param'
                if a.type in ('funcdef', 'classdef'):
                    if a.type == 'funcdef' and prev.type == 'tfpdef' or prev.type in ('typedargslist', 'tfpdef'):
                        return 'param'
                    return 'nested_scope' if prev.type == 'suite' or prev is a.children[-1] else 'plain_in_header'
                if a.type in ('comp_for', 'sync_comp_for'):
                    return 'comprehension'
                if a.type in ('testlist_comp', 'dictorsetmaker', 'argument') and any(c.type in ('comp_for', 'sync_comp_for') for c in a.children):
                    return 'comprehension'
                if a.type == 'decorator':
                    return 'decorator_dotted' if prev.type == 'dotted_name' and prev.children[0] is not x else 'plain'
                prev, a = a, a.parent
            if x.parent.type == 'trailer' and x.get_previous_sibling() == '.':
                return 'attribute'
            if x.parent.type == 'dotted_name' and x.parent.children[0] is not x:
                return 'decorator_dotted'
            if x.parent.type == 'argument' and x.get_next_sibling() == '=':
                return 'keyword_argument_name'
            return 'plain'
        kinds = sorted({kind_of(x) for x in occ})
        d['earlier_occurrence_kinds'] = kinds
        d['earlier_occurrences_all_in_imports'] = bool(occ) and 'import' in kinds and set(kinds) <= {'import', 'declaration'}
        d['earlier_occurrences_none_plain'] = bool(occ) and not any(k.startswith('plain') for k in kinds)
    return d


def judge(ctx, v, text, ok_v, ok_38, origin):
    import parso
    if not ok_v:
        ctx.count('not_valid_for_V_skipped')
        return
    g = parso.load_grammar(version=v)
    w = {'version': v, 'code': text, 'origin': origin}
    try:
        m = g.parse(text)
    except RecursionError:
        ctx.count('recursion_error_skipped')
        return
    except Exception as e:
        info = harness.exc_info(e)
        ctx.violation('parse_raised', '%s in %s' % (info['type'], info['func']), w, exc=info)
        return
    ctx.count('evaluations')
    ctx.count('evaluations:' + v)
    err = None
    for n in walk(m):
        if n.type in ('error_node', 'error_leaf'):
            err = n
            break
    _state['issues'] = None
    try:
        list(g.iter_errors(m))
    except RecursionError:
        ctx.count('recursion_error_skipped')
        return
    except Exception as e:
        info = harness.exc_info(e)
        ctx.violation('iter_errors_raised', '%s in %s: %s' % (info['type'], info['func'], info['line']), w, exc=info)
        return
    issues = _state['issues'] or []
    lines = G.split_keep(text)
    ff = [k + 1 for k, l in enumerate(lines) if '\x0c' in l[:len(l) - len(l.lstrip(' \t\x0c'))]
          and l.strip(' \t\x0c\r\n') and not l.lstrip(' \t\x0c').startswith('#')]
    common = dict(version_tuple=[int(z) for z in v.split('.')], first_formfeed_indent_line=ff[0] if ff else None)
    # first line on which an f-string is open (or opened) and a backslash stands directly before a brace: from there on parso and
    # CPython read the text differently (F-C12-1)
    _seen_f = False
    for k, l in enumerate(lines):
        if re.search(r'(?i)(?<![a-z0-9_])(f|rf|fr)("|\')', l):
            _seen_f = True
        if _seen_f and ('\\{' in l or '\\}' in l):
            common['fstring_backslash_brace_first_line'] = k + 1
            break
    if ok_38:
        ctx.count('sense_a_programs')
        if err is not None:
            anc, val = _ancestors(m, err.start_pos)
            _nl = err.get_last_leaf().get_next_leaf() if hasattr(err, 'children') else err.get_next_leaf()
            common = dict(common, err_end_line=err.end_pos[0], next_leaf_line=_nl.start_pos[0] if _nl is not None else None)
            common['err_span_text'] = ''.join(lines[err.start_pos[0] - 1:(_nl.start_pos[0] if _nl is not None else err.end_pos[0])])[:400]
            ctx.violation('a_error_node', 'CPython %s and 3.8 compile it, parso(%s) has %s at %s: %r' % (
                v, v, err.type, err.start_pos, err.get_code()[:60]), w, sense='a', line=err.start_pos[0],
                line_text=lines[err.start_pos[0] - 1][:120] if err.start_pos[0] - 1 < len(lines) else '', ancestors=anc,
                token_type=getattr(err, 'token_type', None), **common)
        elif issues:
            i = issues[0]
            anc, val = _ancestors(m, i.start_pos)
            ctx.violation('a_issue:' + _norm(i.message), 'CPython %s and 3.8 compile it, parso(%s) reports %r at %s' % (v, v, i.message, i.start_pos), w,
                          sense='a', message=i.message, line=i.start_pos[0], ancestors=anc, leaf_value=val,
                          line_text=lines[i.start_pos[0] - 1][:120] if i.start_pos[0] - 1 < len(lines) else '', mech=_mech(m, i.start_pos), **common)
    if err is None:
        ctx.count('sense_b_programs')
        if issues and not ok_38:
            i = issues[0]
            anc, val = _ancestors(m, i.start_pos)
            ctx.violation('b_issue:' + _norm(i.message), 'CPython %s compiles it, parso(%s) parses it without error nodes but reports %r at %s' % (
                v, v, i.message, i.start_pos), w, sense='b', message=i.message, line=i.start_pos[0], ancestors=anc, leaf_value=val,
                line_text=lines[i.start_pos[0] - 1][:120] if i.start_pos[0] - 1 < len(lines) else '', mech=_mech(m, i.start_pos), **common)
    else:
        ctx.count('programs_with_error_nodes_outside_sense_a' if not ok_38 else 'programs_with_error_nodes')
    if len(text) > 1500 or any(k in text for k in SEM):
        ctx.nontriv(v + '\0' + text)
    if len(text) < 80:
        ctx.sample({'version': v, 'code': text, 'compiles_under_3.8': bool(ok_38), 'issues': [i.message for i in issues]})


def run_shard(spec, ctx):
    _install(ctx)
    v = spec['version']
    srv, s38 = RefServer(v), RefServer('3.8')
    if not srv.available() or not s38.available():
        ctx.count('reference_interpreter_missing')
        return
    rng = random.Random(spec['seed'])

    def ask38(text):
        if v == '3.8':
            return True
        r = s38.ask({'op': 'compile', 'text': text})
        return bool(r and r.get('compiles'))
    try:
        if spec['kind'] == 'stdlib':
            for f in G.stdlib_files(v)[spec['offset']::spec['stride']]:
                if ctx.out_of_time():
                    ctx.count('stopped_by_time_budget')
                    break
                r = srv.ask({'op': 'file', 'path': f, 'then': 'compile'}, timeout=120)
                if r is None or r.get('text') is None or 'fail' in r:
                    ctx.count('reference_could_not_read_skipped')
                    continue
                ctx.count('stdlib_files')
                text = r['text']
                judge(ctx, v, text, r.get('compiles'), r.get('compiles') and ask38(text[1:] if text.startswith('﻿') else text), f)
        elif spec['kind'] == 'snippets_all':
            # deterministic pass: every semantic snippet once per version
            for text in valid.VALID_SNIPPETS:
                r = srv.ask({'op': 'compile', 'text': text})
                if r is None or 'fail' in r:
                    continue
                ctx.count('snippets_all')
                if r.get('compiles'):
                    judge(ctx, v, text, True, ask38(text), 'snippet')
        else:
            files = G.stdlib_files(v)[::7] + G.repo_files()
            gen = valid.candidates(rng, files, _c10._deriver(v))
            for i in range(spec['n']):
                if ctx.out_of_time():
                    ctx.count('stopped_by_time_budget')
                    break
                origin, text = next(gen)
                r = srv.ask({'op': 'compile', 'text': text})
                if r is None or 'fail' in r:
                    ctx.count('reference_failed_skipped')
                    continue
                ctx.count('candidates')
                if r.get('compiles'):
                    ctx.count('valid:' + origin)
                    judge(ctx, v, text, True, ask38(text), origin)
    finally:
        srv.close()
        s38.close()


def replay(w, ctx):
    _install(ctx)
    srv, s38 = RefServer(w['version']), RefServer('3.8')
    try:
        r = srv.ask({'op': 'compile', 'text': w['code']})
        r8 = s38.ask({'op': 'compile', 'text': w['code']})
        if r is not None and r8 is not None:
            judge(ctx, w['version'], w['code'], r.get('compiles'), r.get('compiles') and r8.get('compiles'), 'replay')
    finally:
        srv.close()
        s38.close()


def shards(tier, seed):
    out = []
    for v in harness.VERSIONS:
        if tier == 'quick':
            out.append({'kind': 'stdlib', 'version': v, 'offset': (seed + 5) % 12, 'stride': 12, 'budget_s': 100})
            out.append({'kind': 'generated', 'version': v, 'n': 2500, 'budget_s': 70})
            out.append({'kind': 'snippets_all', 'version': v, 'budget_s': 70})
        else:
            for k in range(4):
                out.append({'kind': 'stdlib', 'version': v, 'offset': k, 'stride': 4, 'budget_s': 3000})
            for k in range(2):
                out.append({'kind': 'generated', 'version': v, 'n': 60000, 'budget_s': 1500})
            out.append({'kind': 'snippets_all', 'version': v, 'budget_s': 300})
    return out


def floors(tier):
    f = {'evaluations': 3000, 'stdlib_files': 500, 'sense_a_programs': 2000, 'sense_b_programs': 2000,
         'contract_evals:Grammar.iter_errors': 3000}
    for v in harness.VERSIONS:
        f['evaluations:' + v] = 200
    return f
