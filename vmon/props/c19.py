"""C19 - trees survive serialisation; refactoring is an exact text splice (DESIGN §2 C19)."""
import pickle
import random

from .. import contracts, harness
from ..gen import text as G
from ..oracles.common import leaves, parents_ok, sig_diff, tree_sig, walk
from . import _text

ID = 'C19'
LEVEL = 'exploration'
RULE = ('cases = hostile mix + whole files, cycled versions; for every tree T: eval(T.dump(indent=i)) for i in '
        "{4,0,1,None,'\\t',''} and pickle round trips (protocol 2 and HIGHEST) must give the same signature "
        '(class names, types, values, prefixes, positions, error-leaf token types), consistent parents and the same '
        'code, and a second dump of the rebuilt tree equals the first; grammar.refactor(T, map) for a random set of '
        'pairwise disjoint nodes/leaves equals an independent splice of the text; empty map returns the code. '
        'non-trivial = distinct input whose tree has error nodes/leaves, params, keyword statements or f-strings')
ASSUMPTIONS = ['tree equality = equality of the pre-order signature (class, type, value, prefix, start, end, token type)']
INDENTS = [4, 0, 1, None, '\t', '']
_state = {}


def _namespace():
    import parso.python.tree as pt
    import parso.tree as t
    ns = {}
    for mod in (t, pt):
        for k, v in vars(mod).items():
            if isinstance(v, type):
                ns[k] = v
    return ns


def _check_copy(ctx, w, what, orig_sig, code, copy):
    d = sig_diff(orig_sig, tree_sig(copy))
    if d:
        ctx.violation(what + '_differs', '%s: %s' % (what, d), w)
        return False
    p = parents_ok(copy)
    if p:
        ctx.violation(what + '_parents', '%s: %s' % (what, p), w)
        return False
    if copy.get_code() != code:
        ctx.violation(what + '_code', '%s: get_code() differs' % what, w)
        return False
    return True


def _query(ctx, g, m):
    """the read-only API a user calls between parsing and saving a tree"""
    try:
        m.get_used_names()
        list(g.iter_errors(m))
        for f in list(m.iter_funcdefs()) + list(m.iter_classdefs()):
            f.get_decorators()
            if f.type == 'funcdef':
                f.get_params()
                f.is_generator()
        for i in m.iter_imports():
            i.get_defined_names()
        m.get_first_leaf(), m.get_last_leaf(), m.get_leaf_for_position((1, 0))
        from ..oracles import readonly
        ctx.count('read_only_calls', readonly.exercise(m, max_nodes=1500))
        ctx.count('trees_queried')
    except RecursionError:
        ctx.count('recursion_error_skipped')
    except Exception:
        ctx.count('query_raised_not_judged_here')      # C13/C14 judge the helpers themselves


def _answers(g, m):
    used = m.get_used_names()
    return (sorted((k, len(v)) for k, v in used.items()), [f.name.value for f in m.iter_funcdefs()],
            [(i.code, i.start_pos) for i in g.iter_errors(m)][:20])


def _judge(ctx, v, code, rng, deep=False):
    import parso
    g = parso.load_grammar(version=v)
    try:
        m = g.parse(code)
    except Exception:
        ctx.count('parse_raised_not_judged_here')
        return
    ctx.count('evaluations')
    w = {'version': v, 'code': code}
    sig = tree_sig(m)
    ns = _state.setdefault('ns', _namespace())
    # --- dump / eval
    i = INDENTS[ctx.counters['evaluations'] % len(INDENTS)]
    for ind in ([i] if len(code) > 300 else INDENTS):
        try:
            text = m.dump(indent=ind)
            copy = eval(text, dict(ns))
        except (RecursionError, MemoryError):
            ctx.count('recursion_error_skipped')
            continue
        except SyntaxError as e:
            if 'too many nested parentheses' in str(e) or 'parser stack overflow' in str(e) or 'too complex' in str(e):
                ctx.count('dump_beyond_the_nesting_limit_of_eval_skipped')      # CPython's limit on the dump text, not parso's
                continue
            info = harness.exc_info(e)
            ctx.violation('dump_eval_raised', 'dump(indent=%r)/eval raised %s: %s' % (ind, info['type'], info['text']), w, exc=info)
            continue
        except Exception as e:
            info = harness.exc_info(e)
            ctx.violation('dump_eval_raised', 'dump(indent=%r)/eval raised %s: %s' % (ind, info['type'], info['text']), w, exc=info)
            continue
        ctx.count('dump_evals')
        if _check_copy(ctx, w, 'dump_eval', sig, code, copy):
            if copy.dump(indent=ind) != text:
                ctx.violation('dump_not_idempotent', 'dump of the rebuilt tree differs (indent=%r)' % (ind,), w)
    # --- pickle: of the fresh tree, and of the tree after it has been queried (the helpers memoise on the tree)
    queried = ctx.counters['evaluations'] % 2 == 0
    if queried:
        _query(ctx, g, m)
        if tree_sig(m) != sig:
            ctx.violation('queries_modified_tree', 'the read-only helpers changed the tree', w)
    for proto in (2, pickle.HIGHEST_PROTOCOL):
        try:
            copy = pickle.loads(pickle.dumps(m, proto))
        except RecursionError:
            ctx.count('recursion_error_skipped')
            continue
        except Exception as e:
            info = harness.exc_info(e)
            ctx.violation('pickle_raised', 'pickle protocol %d raised %s: %s' % (proto, info['type'], info['text']), w, exc=info)
            continue
        ctx.count('pickle_roundtrips')
        if queried:
            ctx.count('pickle_roundtrips_of_queried_trees')
        if _check_copy(ctx, w, 'pickle', sig, code, copy) and queried:
            # the copy answers the same queries
            try:
                a, b = _answers(g, m), _answers(g, copy)
            except RecursionError:
                ctx.count('recursion_error_skipped')
            else:
                if a != b:
                    ctx.violation('pickle_answers_differ', 'the unpickled tree answers the helper queries differently: %r != %r' % (a, b), w)
    # --- refactor
    try:
        if g.refactor(m, {}) != code:
            ctx.violation('refactor_empty_map', 'refactor with an empty map does not return the code', w)
    except RecursionError:
        ctx.count('recursion_error_skipped')
        return
    except Exception as e:
        info = harness.exc_info(e)
        ctx.violation('refactor_raised', 'refactor({}) raised %s: %s' % (info['type'], info['text']), w, exc=info)
    nodes = [n for n in walk(m) if n is not m]
    if nodes:
        L = leaves(m)
        idx = {id(l): k for k, l in enumerate(L)}
        chosen, taken = [], set()
        cand = rng.sample(nodes, min(len(nodes), rng.randint(1, 6)))
        if deep:
            # the deepest leaf (and a node some levels above it) first: targets at every depth the walkers can reach
            dl, dd = max(((l, _depth(l)) for l in L), key=lambda t: t[1])
            up = dl
            for _ in range(rng.randint(0, 12)):
                if up.parent is not None and up.parent is not m:
                    up = up.parent
            cand = [up] + cand
            ctx.observe('deep_target_depth_div10', _depth(up) // 10)
            ctx.count('deep_refactor_targets')
        for n in cand:
            f = n
            while getattr(f, 'children', None):
                f = f.children[0]
            la = n
            while getattr(la, 'children', None):
                la = la.children[-1]
            if id(f) not in idx or id(la) not in idx:
                continue
            rng_ = range(idx[id(f)], idx[id(la)] + 1)
            if any(k in taken for k in rng_):
                continue
            taken.update(rng_)
            chosen.append((n, rng_, rng.choice(['', 'X', ' y ', '\n', '<<%d>>' % len(chosen), 'é\t'])))
        mapping = {n: s for n, _, s in chosen}
        start = {r[0]: (r, s) for _, r, s in chosen}
        out, k = [], 0
        while k < len(L):
            if k in start:
                r, s = start[k]
                out.append(s)
                k = r[-1] + 1
            else:
                out.append(L[k].prefix + L[k].value)
                k += 1
        exp = ''.join(out)
        try:
            got = g.refactor(m, mapping)
        except RecursionError:
            ctx.count('recursion_error_skipped')
        except Exception as e:
            info = harness.exc_info(e)
            ctx.violation('refactor_raised', 'refactor raised %s: %s' % (info['type'], info['text']), w, exc=info)
        else:
            ctx.count('refactor_calls')
            ctx.count('refactor_targets', len(chosen))
            if got != exp:
                ctx.violation('refactor_splice', 'refactor result differs from the independent splice; targets %r' % (
                    [(n.type, list(n.start_pos), s) for n, _, s in chosen],), w,
                    targets=[(n.type, list(n.start_pos), s) for n, _, s in chosen])
        if tree_sig(m) != sig:
            ctx.violation('refactor_modified_tree', 'refactor changed the tree', w)
    types = {n.type for n in walk(m)}
    if types & {'error_node', 'error_leaf', 'param', 'fstring', 'return_stmt', 'del_stmt', 'global_stmt', 'raise_stmt', 'assert_stmt'}:
        ctx.nontriv(v + '\0' + code)
    for t in types:
        ctx.observe('node_types', t)
    for n in walk(m):
        ctx.observe('classes', type(n).__name__)
    if len(code) < 60:
        ctx.sample({'version': v, 'code': code, 'dump': m.dump(indent=None)[:300]})


def _depth(n):
    d = 0
    while n.parent is not None:
        n = n.parent
        d += 1
    return d


def run_shard(spec, ctx):
    rng = random.Random(spec['seed'] + 11)
    if spec['kind'] == 'deep':
        for v, code, origin in _text.cases(spec, ctx, gen=lambda r, files: G.deep(r)):
            ctx.count('deep_programs')
            try:
                _judge(ctx, v, code, rng, deep=True)
            except RecursionError:
                ctx.count('recursion_error_skipped')      # CPython's recursion limit in one of the walkers: outside the property
        return
    it = _text.whole_files(spec, ctx) if spec['kind'] == 'files' else _text.cases(spec, ctx)
    for v, code, origin in it:
        try:
            _judge(ctx, v, code, rng)
        except RecursionError:
            ctx.count('recursion_error_skipped')


def replay(w, ctx):
    for s in range(20):
        _judge(ctx, w['version'], w['code'], random.Random(s), deep=s % 2 == 1)


def shards(tier, seed):
    s = _text.shards(tier, seed, 16000, 300000)
    nf = 8
    s += [{'kind': 'files', 'shard': i, 'nshards': nf, 'file_stride': 40 if tier == 'quick' else 2,
           'budget_s': 60 if tier == 'quick' else 900} for i in range(nf)]
    s += [{'kind': 'deep', 'n': 150 if tier == 'quick' else 4000, 'budget_s': 60 if tier == 'quick' else 900} for i in range(4)]
    return s


def floors(tier):
    return {'evaluations': 2000, 'dump_evals': 8000, 'pickle_roundtrips': 4000, 'refactor_calls': 2000, 'set:classes': 30,
            'pickle_roundtrips_of_queried_trees': 1500, 'deep_refactor_targets': 200, 'set:deep_target_depth_div10': 20}
