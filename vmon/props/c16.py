"""C16 - the parse cache is transparent: never a stale or foreign tree (DESIGN §2 C16).
History explorer under a virtual clock.  Reference model: fresh parse of the bytes currently on disk.
Monitors: recording contract on parso.cache.load_module (cache hits are observed, not assumed),
boundary comparison after every parse, sys.monitoring LINE injection of external writes."""
import os
import pathlib
import random
import shutil
import sys
import tempfile
import time as _time

from .. import contracts, harness
from ..oracles.common import sig_diff, tree_sig

ID = 'C16'
LEVEL = 'exploration'
RULE = ('histories of 3-14 operations over {write file (mtime advances), touch, parse with cache / cache+diff_cache / no cache / '
        'code= given, drop the in-memory cache (new process), delete the cache directory, idle (10 min / 1 day / 40 days), fill the '
        'memory cache beyond the eviction trigger, write during an in-flight parse} x 3 files x 3 grammar versions x 2 cache '
        'directories, under a virtual clock (time.time in parso.cache and all mtimes owned by the harness). After every parse the '
        'tree signature must equal a fresh parse of the current file content (the in-flight call itself may return old or new). '
        'Thorough tier: the external write is injected at every LINE event inside Grammar.parse/load_module/_load_from_file_system/'
        'try_to_save_module/_save_to_file_system in turn. non-trivial = distinct history with a cache hit (memory or disk) after a write')
ASSUMPTIONS = ['a change is observable as a newer mtime: every harness write advances the virtual clock and stamps the file with it',
               'files written by parso during a call (pickles, lock file) are stamped with that call\'s clock value afterwards']
TOOL = 2
_state = {}
SN = ['x = 1\n', 'def f(a):\n    return a\n', 'class A:\n    pass\n', 'import os\n', 'y = (\n', 'if x:\n    pass\nelse:\n    z\n',
      '# c\n', '', 'for i in j: pass', 'x = "\\xe9"\n', '    indented\n', 'f"{a}"\n', 'try:\n    pass\nfinally:\n    pass\n',
      # content whose tree depends on the grammar version (3.7 / 3.10 / 3.13): a foreign-version tree is visible
      'x = (y := 1)\n', 'with (a as b): pass\n', 'try:\n    pass\nexcept* E:\n    pass\n', 'type X = int\n', 'def f[T](a): pass\n',
      'def f(a, /): pass\n', 'print(f"{x=}")\n']


class Clock:
    def __init__(self):
        self.L = _time.time() + 5

    def rebase(self):
        """every history starts near the real time: thousands of histories with 40-day idle periods would otherwise carry the clock
        (and the 'future' modification times with it) past what the file system can store (ext4: year 2446), where utime() clamps
        and modification times stop advancing - a harness artefact that looks like a stale cache"""
        self.L = _time.time() + 5

    def tick(self, d=1.0):
        self.L = max(self.L + d, _time.time() + 1)
        return self.L


class _TimeShim:
    def __init__(self, clk):
        self.clk = clk

    def time(self):
        return self.clk.L


def _load_post(result, args, kwargs, old):
    ctx = _state.get('ctx')
    if ctx is None:
        return
    ctx.count('contract_evals:load_module')
    if result is not None:
        _state['hit'] = True
        ctx.count('cache_hits')


def _install(ctx):
    if _state.get('installed'):
        _state['ctx'] = ctx
        return
    _state['installed'] = True
    _state['ctx'] = ctx
    import parso.cache as C
    import parso.grammar
    contracts.install(C, 'load_module', _load_post)
    assert parso.grammar.load_module is C.load_module
    clk = Clock()
    _state['clk'] = clk
    C.time = _TimeShim(clk)


class World:
    """one private directory with files, cache dirs and the virtual clock discipline"""

    def __init__(self, rng, clk, timelines=None):
        self.rng = rng
        self.clk = clk
        self.root = pathlib.Path(tempfile.mkdtemp(prefix='vmon16-'))
        (self.root / 'sub').mkdir()
        self.files = [self.root / 'a.py', self.root / 'b.py', self.root / 'sub' / 'a.py']
        # a second spelling of files[2] that goes through a symlinked directory and '..': root/lnk -> root/sub/deep, so
        # root/lnk/../a.py is root/sub/a.py - while a purely lexical normalisation would call it root/a.py (= files[0])
        (self.root / 'sub' / 'deep').mkdir()
        try:
            os.symlink(self.root / 'sub' / 'deep', self.root / 'lnk')
            self.alias = self.root / 'lnk' / '..' / 'a.py'
        except OSError:
            self.alias = None
        self.fio = {}
        self.cds = [self.root / 'c1', self.root / 'c2']
        self.vers = ['3.7', '3.10', '%d.%d' % sys.version_info[:2], 'custom36']      # custom36: load_grammar(path=<a copy of grammar36.txt>), default version_info
        self.cur = {}
        self.seen = {}
        # the modification-time line each file lives on: the clock, or absolute values a clock-based line never shows
        # (exactly 0.0 = the epoch, as left by archives and reproducible builds; far in the future = a skewed clock)
        self.timelines = timelines if timelines is not None else [rng.choice(['clock', 'clock', 'clock', 'epoch', 'future']) for _ in self.files]
        self.last_mtime = {}
        self.unreliable = False

    def next_mtime(self, f):
        mode = self.timelines[self.files.index(f)]
        if mode == 'clock':
            return self.clk.L
        if f not in self.last_mtime:
            t = 0.0 if mode == 'epoch' else self.clk.L + 20 * 365 * 86400.0
        else:
            t = self.last_mtime[f] + [1.0, 1000.0, 2.0, 86400.0][int(self.last_mtime[f]) % 4]
        self.last_mtime[f] = t
        return t

    def content(self):
        return ''.join(self.rng.choice(SN) for _ in range(self.rng.randint(0, 4)))

    def write(self, f, s):
        self.clk.tick()
        f.write_text(s, encoding='utf-8')
        t = self.next_mtime(f)
        os.utime(f, (t, t))
        if os.path.getmtime(f) != t:
            self.unreliable = True          # the file system did not store the time we asked for: nothing about this history is judged
        self.cur[f] = s

    def stamp_cache(self):
        """files parso wrote during the last call get that call's clock value"""
        for cd in self.cds:
            if cd.exists():
                for p in cd.rglob('*'):
                    if p.is_file():
                        st = p.stat()
                        key = (st.st_mtime_ns, st.st_size, st.st_ino)
                        if self.seen.get(str(p)) != key:
                            os.utime(p, (self.clk.L, self.clk.L))
                            st = p.stat()
                            self.seen[str(p)] = (st.st_mtime_ns, st.st_size, st.st_ino)

    def close(self):
        shutil.rmtree(self.root, ignore_errors=True)


OPS = ['write', 'write', 'parse', 'parse', 'parse', 'parse_diff', 'parse_nocache', 'newproc', 'rmcache', 'touch', 'idle',
       'parse_code', 'fill', 'inflight', 'inflight', 'parse_fio', 'parse_fio']


def _grammar(v):
    import parso
    if v != 'custom36':
        return parso.load_grammar(version=v)
    if 'custom36' not in _state:
        d = tempfile.mkdtemp(prefix='vmon16g-')
        p = os.path.join(d, 'mygrammar.txt')
        shutil.copy(os.path.join(harness.REPO, 'parso', 'python', 'grammar36.txt'), p)
        _state['custom36'] = p
    return parso.load_grammar(path=_state['custom36'])


def run_history(ctx, rng, ops=None, inject=None, timelines=None, initial=None):
    """ops: list of (op, file index, version, cache dir index, content or None) to replay; else random"""
    import parso
    import parso.cache as C
    from parso.file_io import FileIO
    clk = _state['clk']
    clk.rebase()
    w = World(rng, clk, timelines if timelines is not None else (None if ops is None else ['clock'] * 3))
    log = []

    def viol(*a, **k):
        if w.unreliable:
            ctx.count('fs_did_not_store_a_modification_time_not_judged')
            return
        ctx.violation(*a, **k)
    hit_after_write = False
    wrote = set()
    try:
        initial = initial if initial is not None else [w.content() if ops is None else '' for _ in w.files]
        for f, c0 in zip(w.files, initial):
            w.write(f, c0)
        C.parser_cache.clear()
        n = rng.randint(3, 14) if ops is None else len(ops)
        for step in range(n):
            if ops is None:
                op = rng.choice(OPS)
                fi, v, ci = rng.choice([0, 1, 2, 2, 3]), rng.choice(w.vers), rng.randrange(2)
                new = w.content() if op in ('write', 'inflight') else None
            else:
                op, fi, v, ci, new = ops[step]
            f, cd = w.files[2 if fi == 3 else fi], w.cds[ci]
            # the path the parse calls use: for file 2 sometimes its spelling through the symlinked directory
            fp = w.alias if (fi == 3 and w.alias is not None and op.startswith('parse')) else f
            g = _grammar(v)
            log.append([op, fi, v, ci, new])
            wit = {'ops': list(log), 'timelines': list(w.timelines), 'initial': list(initial)}
            clk.tick()
            _state['hit'] = False
            m = None
            try:
                if op == 'write':
                    w.write(f, new)
                    wrote.add(f)
                    continue
                if op == 'touch':
                    t = w.next_mtime(f)
                    os.utime(f, (t, t))
                    if os.path.getmtime(f) != t:
                        w.unreliable = True
                    continue
                if op == 'newproc':
                    C.parser_cache.clear()
                    continue
                if op == 'rmcache':
                    if cd.exists():
                        shutil.rmtree(cd)
                    w.seen = {k: s for k, s in w.seen.items() if not k.startswith(str(cd))}
                    continue
                if op == 'idle':
                    clk.tick(rng.choice([700, 90000, 40 * 86400]) if ops is None else 90000)
                    continue
                if op == 'fill':
                    # push the memory cache over the eviction trigger with unrelated virtual entries
                    # fillers live under the hashes of the real grammars (in a rotating order), as other modules of a project would
                    hs = [_grammar(x)._hashed for x in w.vers]
                    rot = len(log) % 3
                    hs = hs[rot % len(hs):] + hs[:rot % len(hs)]
                    for k in range(C._CACHED_SIZE_TRIGGER + 5):
                        C._set_cache_item(hs[k % len(hs)], pathlib.Path('/virt/filler%d' % k), C._NodeCacheItem(None, [], clk.L))
                    clk.tick(700)      # the fillers are now older than the 10-minute survival: the next save runs the eviction
                    if rng.random() < .7 or ops is not None:
                        # the save that triggers the eviction, then the same unchanged file through another grammar
                        others = [x for x in w.vers if x != v]
                        for vv in [v, others[len(log) % 2]]:
                            gg = _grammar(vv)
                            mm = gg.parse(path=f, cache=True, cache_path=cd)
                            w.stamp_cache()
                            ctx.count('evaluations')
                            ctx.count('op:parse_after_eviction')
                            dd = sig_diff(tree_sig(mm), tree_sig(gg.parse(w.cur[f])))
                            if dd:
                                viol('stale_or_foreign_tree', 'after the memory-cache eviction, grammar %s on file %d: tree differs from a fresh parse: %s' % (vv, fi, dd),
                                              wit, op='parse_after_eviction', served_from_cache=bool(_state['hit']))
                                return
                    continue
                if op == 'parse':
                    m = g.parse(path=fp, cache=True, cache_path=cd)
                elif op == 'parse_diff':
                    m = g.parse(path=fp, cache=True, diff_cache=True, cache_path=cd)
                elif op == 'parse_nocache':
                    m = g.parse(path=fp)
                elif op == 'parse_code':
                    m = g.parse(w.cur[f], path=fp, cache=True, cache_path=cd)
                elif op == 'parse_fio':
                    # the public file_io= argument with a FileIO object the caller keeps for the whole history
                    if fp not in w.fio:
                        w.fio[fp] = FileIO(fp)
                    m = g.parse(file_io=w.fio[fp], cache=True, cache_path=cd, diff_cache=(len(log) % 3 == 0))
                    ctx.count('parses_through_a_kept_FileIO_object')
                elif op == 'inflight':
                    old = w.cur[f]
                    if inject is None:
                        world = w

                        class Racy(FileIO):
                            def read(self_):
                                data = FileIO.read(self_)
                                world.write(f, new)
                                return data
                        # half of the in-flight writes hit an incremental (diff_cache) re-parse
                        # a third of them through the incremental parser alone (diff_cache without cache: nothing is pickled)
                        m = g.parse(path=f, cache=(len(log) % 3 != 0), cache_path=cd, file_io=Racy(f), diff_cache=(len(log) % 2 == 0 or len(log) % 3 == 0))
                        if len(log) % 3 == 0:
                            ctx.count('inflight_writes_during_a_diff_cache_only_parse')
                    else:
                        m = inject(lambda: g.parse(path=f, cache=True, cache_path=cd, diff_cache=(len(log) % 2 == 0)), lambda: w.write(f, new))
                    wrote.add(f)
                    w.stamp_cache()
                    ctx.count('inflight_writes')
                    s = tree_sig(m)
                    if s != tree_sig(g.parse(old)) and s != tree_sig(g.parse(w.cur[f])):
                        viol('inflight_result', 'the in-flight call returned neither the old nor the new tree', wit)
                        return
                    continue
            except RecursionError:
                return
            except Exception as e:
                info = harness.exc_info(e)
                viol('parse_raised', 'op %s raised %s: %s in %s: %s' % (op, info['type'], info['text'][:80], info['func'], info['line']),
                              wit, exc=info, op=op)
                return
            w.stamp_cache()
            ctx.count('evaluations')
            ctx.count('op:' + op)
            if fp is not f:
                ctx.count('parses_through_the_symlinked_spelling')
            if _state['hit'] and f in wrote:
                hit_after_write = True
            ref = g.parse(w.cur[f])
            d = sig_diff(tree_sig(m), tree_sig(ref))
            if d:
                prev_inflight = [k for k, o in enumerate(log[:-1]) if o[0] == 'inflight' and o[1] == fi]
                viol('stale_or_foreign_tree', 'op %s on file %d (grammar %s, cache dir %d): tree differs from a fresh parse of the current '
                              'content: %s' % (op, fi, v, ci, d), wit, op=op, served_from_cache=bool(_state['hit']),
                              inflight_write_on_this_file_before=bool(prev_inflight), ops_since_inflight=(len(log) - 1 - prev_inflight[-1]) if prev_inflight else None)
                return
        for fi_, mode in enumerate(w.timelines):
            if mode != 'clock' and any(o[1] == fi_ and o[0].startswith('parse') for o in log):
                ctx.count('histories_parsing_a_file_on_the_%s_timeline' % mode)
        if hit_after_write:
            ctx.nontriv(repr(log))
            ctx.count('histories_with_hit_after_write')
        if len(log) <= 5:
            ctx.sample({'ops': [[o[0], o[1], o[2], o[3]] for o in log]})
    finally:
        C.parser_cache.clear()
        w.close()


def _line_sweep(ctx, rng, budget_s):
    """thorough tier: perform the external write at the k-th LINE event inside the cache/parse functions, for every k"""
    import parso.cache as C
    import parso.grammar as GR
    mon = sys.monitoring
    targets = {GR.Grammar.parse.__wrapped__.__code__ if hasattr(GR.Grammar.parse, '__wrapped__') else GR.Grammar.parse.__code__}
    for fn in (C.load_module, C._load_from_file_system, C.try_to_save_module, C._save_to_file_system, C._set_cache_item):
        f = fn
        while hasattr(f, '__wrapped__'):
            f = f.__wrapped__
        targets.add(f.__code__)
    mon.use_tool_id(TOOL, 'vmon-inject')
    st = {'k': None, 'n': 0, 'action': None, 'done': False}

    def on_line(code, line):
        if code not in targets:
            return mon.DISABLE
        st['n'] += 1
        if st['k'] is not None and st['n'] == st['k'] and not st['done']:
            st['done'] = True
            mon.set_events(TOOL, 0)
            st['action']()
        return None
    mon.register_callback(TOOL, mon.events.LINE, on_line)

    def injector(k):
        def inject(call, action):
            st.update(k=k, n=0, action=action, done=False)
            mon.restart_events()
            mon.set_events(TOOL, mon.events.LINE)
            try:
                r = call()
            finally:
                mon.set_events(TOOL, 0)
            if not st['done']:
                action()      # the write happened after the call: still a valid history
                ctx.count('injection_point_beyond_call')
            else:
                ctx.count('line_injections')
                ctx.observe('injection_points', k)
            return r
        return inject
    scenarios = [
        [('write', 0, '3.10', 0, 'x = 1\n'), ('inflight', 0, '3.10', 0, 'y = 2\n'), ('parse', 0, '3.10', 0, None), ('parse', 0, '3.10', 0, None)],
        [('write', 0, '3.10', 0, 'x = 1\n'), ('parse', 0, '3.10', 0, None), ('inflight', 0, '3.10', 0, 'def f(): pass\n'), ('newproc', 0, '3.10', 0, None),
         ('parse', 0, '3.10', 0, None), ('parse_diff', 0, '3.10', 0, None)],
        [('write', 1, '3.8', 1, 'a\n'), ('parse', 1, '3.8', 1, None), ('newproc', 1, '3.8', 1, None), ('inflight', 1, '3.8', 1, 'b\n'),
         ('parse_code', 1, '3.8', 1, None), ('parse', 1, '3.8', 1, None)],
    ]
    t0 = _time.time()
    for sc in scenarios:
        for k in range(1, 90):
            if _time.time() - t0 > budget_s:
                ctx.count('stopped_by_time_budget')
                return
            ctx.count('sweep_histories')
            run_history(ctx, rng, ops=[list(o) for o in sc], inject=injector(k))


def run_shard(spec, ctx):
    _install(ctx)
    rng = random.Random(spec['seed'])
    if spec['kind'] == 'sweep':
        _line_sweep(ctx, rng, spec['budget_s'])
        return
    for i in range(spec['n']):
        if ctx.out_of_time():
            ctx.count('stopped_by_time_budget')
            break
        ctx.count('histories')
        run_history(ctx, rng)


def replay(w, ctx):
    _install(ctx)
    run_history(ctx, random.Random(0), ops=[list(o) for o in w['ops']], timelines=w.get('timelines'), initial=w.get('initial'))


def shards(tier, seed):
    q = tier == 'quick'
    out = [{'kind': 'explore', 'n': 1500 if q else 20000, 'budget_s': 70 if q else 1500} for _ in range(15)]
    out.append({'kind': 'sweep', 'budget_s': 60 if q else 900})
    return out


def floors(tier):
    return {'evaluations': 5000, 'cache_hits': 1000, 'histories_with_hit_after_write': 300, 'inflight_writes': 300, 'line_injections': 20,
            'histories_parsing_a_file_on_the_epoch_timeline': 100, 'histories_parsing_a_file_on_the_future_timeline': 100,
            'parses_through_a_kept_FileIO_object': 1000, 'parses_through_the_symlinked_spelling': 1000}
