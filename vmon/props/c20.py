"""C20 - the PEP 8 checker never fails; well-formed, stable issues (DESIGN §2 C20).
Deciding monitor: recording contract on the real Grammar._get_normalizer_issues."""
import collections
import pickle
import random
import sys

from .. import contracts, harness
from ..gen import text as G
from ..oracles.common import has_error, sig_diff, tree_sig, walk
from . import _text

ID = 'C20'
LEVEL = 'exploration'
RULE = ('cases = whole real files, corpus slices with injected fragments, rule-trigger snippets, garbage, and trees '
        'obtained through diff_cache edit histories and unpickling; x versions x configurations (indentation 4 spaces/'
        '2 spaces/tab, max line length 79/20/200). Contract on Grammar._get_normalizer_issues: no exception, tree '
        'signature unchanged, int code, str message, range inside (1,0)..module.end_pos with start<=end and columns '
        '>= 0, no repeated (code,start), second call identical, identical list for the fresh tree, the diff-parser tree '
        'and the unpickled tree of the same text; on error-free trees code 292 <=> text does not end in a line break. '
        'non-trivial = distinct input with >= 1 issue and >= 2 indentation levels')
ASSUMPTIONS = ['the default configuration is PEP8NormalizerConfig() as shipped; trees from histories are compared only '
               'when the diff-parser tree equals the fresh tree (otherwise the witness belongs to C04)']
_state = {}
TOOL = 4


def _configs():
    from parso.python.pep8 import PEP8NormalizerConfig
    out = [('default', None)]
    for ind_name, ind in (('4sp', '    '), ('2sp', '  '), ('tab', '\t')):
        for mc in (79, 20, 200):
            if ind_name == '4sp' and mc == 79:
                continue
            out.append(('%s/%d' % (ind_name, mc), PEP8NormalizerConfig(indentation=ind, max_characters=mc)))
    return out


def _isig(issues):
    return [(i.code, i.message, tuple(i.start_pos), tuple(i.end_pos)) for i in issues]


def _snap(args, kwargs):
    return tree_sig(args[1])


def _post(result, args, kwargs, old):
    ctx = _state.get('ctx')
    if ctx is None or not _state.get('active'):
        return
    node = args[1]
    if node.type != 'file_input' or node.parent is not None:
        return
    w = _state['w']
    ctx.count('contract_evals:_get_normalizer_issues')
    after = tree_sig(node)
    if after != old:
        ctx.violation('tree_modified', 'the checker changed the tree: ' + str(sig_diff(old, after)), w)
    end = tuple(node.end_pos)
    seen = set()
    lines = None
    for i in result:
        if not isinstance(i.code, int) or isinstance(i.code, bool):
            ctx.violation('issue_code', 'issue code %r is not an int' % (i.code,), w)
        if not isinstance(i.message, str) or not i.message:
            ctx.violation('issue_message', 'issue %r message %r' % (i.code, i.message), w)
        s, e = tuple(i.start_pos), tuple(i.end_pos)
        if s[1] < 0 or e[1] < 0:
            ctx.violation('issue_negative_column', 'issue %s at %s..%s' % (i.code, s, e), w, code_=i.code)
        elif not ((1, 0) <= s <= e <= end):
            ctx.violation('issue_range', 'issue %s range %s..%s outside (1,0)..%s' % (i.code, s, e, end), w, code_=i.code)
        else:
            # inside the file also means: on an existing line, not beyond its end (the line break itself counts as one position)
            if lines is None:
                from parso.utils import split_lines
                lines = split_lines(node.get_code(), keepends=True)
            for what, (ln, col) in (('start', s), ('end', e)):
                if ln > len(lines) or col > len(lines[ln - 1]):
                    ctx.violation('issue_beyond_line_end', 'issue %s %s %s lies beyond the end of line %d (%d characters)' % (
                        i.code, what, (ln, col), ln, len(lines[ln - 1]) if ln <= len(lines) else -1), w, code_=i.code)
                    break
        k = (i.code, s)
        if k in seen:
            ctx.violation('issue_repeated', 'issue (%s, %s) reported twice' % k, w)
        seen.add(k)
        ctx.observe('issue_codes', i.code)


def _on_raise(exc, args, kwargs):
    ctx = _state.get('ctx')
    if ctx is None or not _state.get('active'):
        return
    info = harness.exc_info(exc)
    _state['raised'] = info
    ctx.count('calls_raised')
    ctx.observe('raise_sites', '%s | %s | %s' % (info['type'], info['func'], info['line']))
    ctx.violation('normalizer_raised', '%s: %s in %s: %s' % (info['type'], info['text'], info['func'], info['line']),
                  _state['w'], exc=info)


def _install(ctx):
    if _state.get('installed'):
        _state['ctx'] = ctx
        return
    _state['installed'] = True
    import parso.grammar
    _state['ctx'] = ctx
    contracts.install(parso.grammar.Grammar, '_get_normalizer_issues', _post, snap=_snap, on_raise=_on_raise)
    _state['configs'] = _configs()


def _issues(g, m, cfg):
    _state['raised'] = None
    try:
        return _isig(g._get_normalizer_issues(m, cfg)) if cfg is not None else _isig(g._get_normalizer_issues(m))
    except RecursionError:
        return None
    except Exception:
        return None


def _judge(ctx, v, code, rng, cfg_name=None, history=None):
    import parso
    g = parso.load_grammar(version=v)
    cfgs = _state['configs']
    name, cfg = next(c for c in cfgs if c[0] == cfg_name) if cfg_name else cfgs[rng.randrange(len(cfgs))] if rng.random() < .6 else cfgs[0]
    try:
        m = g.parse(code)
    except Exception:
        ctx.count('parse_raised_not_judged_here')
        return
    w = {'version': v, 'code': code, 'config': name}
    if history:
        w['history'] = history
    _state['w'] = w
    _state['active'] = True
    ctx.count('evaluations')
    ctx.count('config:' + name)
    try:
        first = _issues(g, m, cfg)
        if first is None:
            return
        second = _issues(g, m, cfg)
        if second is None:
            return
        if first != second:
            ctx.violation('unstable', 'second call differs: %r vs %r' % ([x for x in first if x not in second][:3],
                                                                       [x for x in second if x not in first][:3]), w)
        # unpickled tree
        try:
            m2 = pickle.loads(pickle.dumps(m))
        except RecursionError:
            m2 = None
        if m2 is not None:
            third = _issues(g, m2, cfg)
            if third is not None:
                ctx.count('unpickled_trees_checked')
                if third != first:
                    ctx.violation('differs_on_unpickled_tree', 'unpickled tree gives %r, fresh %r' % (
                        [x for x in third if x not in first][:3], [x for x in first if x not in third][:3]), w)
        # diff-parser tree of the same text
        if history:
            path = '/virt/c20/%d.py' % ctx.counters['evaluations']
            dm = None
            try:
                for t in history:
                    dm = g.parse(t, diff_cache=True, path=path)
                dm = g.parse(code, diff_cache=True, path=path)
            except Exception:
                dm = None
                ctx.count('diff_parser_raised_not_judged_here')
            if dm is not None:
                if tree_sig(dm) != tree_sig(m):
                    ctx.count('diff_tree_differs_not_judged_here')
                else:
                    fourth = _issues(g, dm, cfg)
                    if fourth is not None:
                        ctx.count('diff_parser_trees_checked')
                        if fourth != first:
                            ctx.violation('differs_on_diff_parser_tree', 'diff-parser tree gives %r, fresh %r' % (
                                [x for x in fourth if x not in first][:3], [x for x in first if x not in fourth][:3]), w)
            from parso.cache import parser_cache
            parser_cache.pop(g._hashed, None)
        if not has_error(m):
            ctx.count('error_free_trees')
            has292 = any(c == 292 for c, _, _, _ in first)
            want = not code.endswith(('\n', '\r'))
            if has292 != want:
                ctx.violation('w292', "'no newline at end of file' reported=%s, text ends in a line break=%s" % (has292, not want), w)
        if first:
            depth = 0
            for n in walk(m):
                if n.type == 'suite':
                    d, a = 0, n
                    while a is not None:
                        d += a.type == 'suite'
                        a = a.parent
                    depth = max(depth, d)
                    if depth >= 1:
                        break
            if depth >= 1:
                ctx.nontriv(v + name + '\0' + code)
        if first and len(code) < 70:
            ctx.sample({'version': v, 'config': name, 'code': code, 'issues': first[:5]})
    finally:
        _state['active'] = False


def run_shard(spec, ctx):
    _install(ctx)
    rng = random.Random(spec['seed'] + 5)
    if spec['kind'] == 'files':
        cfgs = [c[0] for c in _state['configs']]
        for k, (v, code, origin) in enumerate(_text.whole_files(spec, ctx)):
            _judge(ctx, v, code, rng, cfg_name=cfgs[(k + spec['shard']) % len(cfgs)])
            ctx.count('whole_files')
        return
    files = G.corpus_files()
    for v, code, origin in _text.cases(spec, ctx, gen=lambda r, f: G.hostile(r, f, trig=0.3)):
        hist = None
        if rng.random() < .25:
            cur = G.split_keep(code)
            hist = []
            for _ in range(rng.randint(1, 3)):
                cur = G.mutate_lines(cur, rng)
                hist.append(''.join(cur))
            hist.reverse()   # history ends at `code`
        _judge(ctx, v, code, rng, history=hist)


def replay(w, ctx):
    _install(ctx)
    _judge(ctx, w['version'], w['code'], random.Random(0), cfg_name=w.get('config'), history=w.get('history'))


def shards(tier, seed):
    s = _text.shards(tier, seed, 20000, 400000)
    nf = 16
    s += [{'kind': 'files', 'shard': i, 'nshards': nf, 'file_stride': 6 if tier == 'quick' else 1,
           'budget_s': 80 if tier == 'quick' else 1500} for i in range(nf)]
    return s


def floors(tier):
    return {'evaluations': 3000, 'contract_evals:_get_normalizer_issues': 6000, 'whole_files': 150,
            'unpickled_trees_checked': 1000, 'diff_parser_trees_checked': 300, 'error_free_trees': 300,
            'set:issue_codes': 40}
