"""C14 - scope, definition, parameter and import helpers agree with CPython's AST (DESIGN §2 C14).
Reference model: ast.parse of the running interpreter (3.12) in-process; parso grammar 3.12.
Every name leaf / scope / function / import of every valid program is compared."""
import ast
import io
import random
import tokenize as pytokenize
import unicodedata
import warnings

from .. import harness
from ..gen import text as G
from ..gen import valid
from ..oracles.common import has_error, walk

ID = 'C14'
LEVEL = 'exploration'
RULE = ('programs = the 3.12 standard library (quick: every 6th file), parso sources, and generated programs (semantic '
        'snippets, top-level blocks, token-level mutations, grammar derivations) that the running CPython compiles and parso '
        '(grammar 3.12) parses without error nodes; for every name leaf is_definition() vs. binding positions from the AST; '
        'per scope iter_funcdefs/classdefs/imports; per function/lambda params (name, star kind, default, annotation), return '
        'annotation, is_generator, iter_return_stmts/iter_raise_stmts; imports: level, star, paths, defined names; '
        'get_doc_node() <=> docstring written as one plain string literal. non-trivial = distinct program with >= 1 function '
        'with parameters and >= 1 non-trivial target (tuple/starred/attribute/walrus/with/for/comprehension)')
ASSUMPTIONS = ['CPython ast of the running interpreter (3.12) is the reference; AST scopes are matched to parso scopes by keyword position',
               'type-parameter names, global/nonlocal names and programs with a lone \\r or form feed are outside the enumerated claim',
               '"one plain string literal" is decided with CPython tokenize on the AST docstring segment']
V = '3.12'


def _nf(s):
    """CPython normalises identifiers to NFKC; parso leaves keep the spelling"""
    return unicodedata.normalize('NFKC', s)


def _col(text_lines, lineno, boff):
    return len(text_lines[lineno - 1].encode('utf-8')[:boff].decode('utf-8', 'replace'))


def _own(node):
    """ast nodes in node's own scope (nested scopes yielded, not entered; their decorators/defaults are)"""
    if isinstance(node, (ast.FunctionDef, ast.AsyncFunctionDef, ast.ClassDef)):
        st = list(node.body)        # decorators, defaults, annotations and bases belong to the enclosing scope
    elif isinstance(node, ast.Lambda):
        st = [node.body]
    else:
        st = list(ast.iter_child_nodes(node))
    while st:
        x = st.pop()
        yield x
        if isinstance(x, (ast.FunctionDef, ast.AsyncFunctionDef, ast.ClassDef, ast.Lambda)):
            if isinstance(x, ast.Lambda):
                st.extend(x.args.defaults + [d for d in x.args.kw_defaults if d])
            else:
                st.extend(x.decorator_list)
                if isinstance(x, ast.ClassDef):
                    st.extend(x.bases + [k.value for k in x.keywords])
                else:
                    a = x.args
                    st.extend(a.defaults + [d for d in a.kw_defaults if d])
                    for arg in a.posonlyargs + a.args + a.kwonlyargs + [a.vararg, a.kwarg]:
                        if arg is not None and arg.annotation is not None:
                            st.append(arg.annotation)
                    if x.returns:
                        st.append(x.returns)
            continue
        if isinstance(x, (ast.ListComp, ast.SetComp, ast.DictComp, ast.GeneratorExp)):
            # comprehension bodies are their own scope for yield purposes: a yield there is not the function's
            st.append(x.generators[0].iter)
            continue
        st.extend(ast.iter_child_nodes(x))


def _stmts_direct(node):
    st = list(getattr(node, 'body', []))
    while st:
        x = st.pop()
        if not isinstance(x, ast.stmt):
            continue
        yield x
        if isinstance(x, (ast.FunctionDef, ast.AsyncFunctionDef, ast.ClassDef)):
            continue
        for f in ('body', 'orelse', 'finalbody'):
            st.extend(getattr(x, f, []))
        for h in getattr(x, 'handlers', []):
            st.extend(h.body)
        for c in getattr(x, 'cases', []):
            st.extend(c.body)


def _single_plain_literal(text, expr):
    seg = ast.get_source_segment(text, expr)
    if seg is None:
        return None
    try:
        toks = [t for t in pytokenize.generate_tokens(io.StringIO(seg).readline)
                if t.type not in (pytokenize.NL, pytokenize.NEWLINE, pytokenize.ENDMARKER, pytokenize.COMMENT)]
    except Exception:
        return None
    return len(toks) == 1 and toks[0].type == pytokenize.STRING


def _has_fstring_backslash_brace(text):
    """reference tokens (CPython tokenize): an f-string whose source has a backslash directly before a brace"""
    try:
        toks = list(pytokenize.generate_tokens(io.StringIO(text).readline))
    except Exception:
        return False
    fstart = getattr(pytokenize, 'FSTRING_START', None)
    fend = getattr(pytokenize, 'FSTRING_END', None)
    lines = text.split('\n')
    depth, start = 0, None
    for t in toks:
        if t.type == pytokenize.STRING:
            pre = t.string[:3].lower().split('"')[0].split("'")[0]
            if 'f' in pre and ('\\{' in t.string or '\\}' in t.string):
                return True
        elif fstart is not None and t.type == fstart:
            if depth == 0:
                start = t.start
            depth += 1
        elif fend is not None and t.type == fend:
            depth -= 1
            if depth == 0 and start is not None:
                seg = '\n'.join(lines[start[0] - 1:t.end[0]])
                if '\\{' in seg or '\\}' in seg:
                    return True
    return False


def judge(ctx, text, origin):
    import parso
    if '\r' in text.replace('\r\n', '') or '\f' in text or text.startswith('﻿'):
        ctx.count('lone_cr_or_formfeed_or_bom_skipped')
        return
    try:
        with warnings.catch_warnings():
            warnings.simplefilter('ignore')
            tree = ast.parse(text)
            compile(tree, '<c14>', 'exec')
    except RecursionError:
        return
    except Exception:
        ctx.count('not_valid_skipped')
        return
    g = parso.load_grammar(version=V)
    try:
        m = g.parse(text)
    except RecursionError:
        return
    except Exception:
        ctx.count('parse_raised_not_judged_here')
        return
    if has_error(m):
        ctx.count('parso_error_nodes_skipped')
        return
    ctx.count('evaluations')
    w = {'version': V, 'code': text, 'origin': origin}
    text_lines = parso.split_lines(text)
    seen_kinds = set()

    fsbb = []

    def note(kind, msg, **detail):
        if kind not in seen_kinds:
            seen_kinds.add(kind)
            if not fsbb:
                fsbb.append(_has_fstring_backslash_brace(text))
            ctx.violation(kind, msg, w, fstring_backslash_brace=fsbb[0], **detail)

    def P(node):
        return (node.lineno, _col(text_lines, node.lineno, node.col_offset))

    def Pend(node):
        return (node.end_lineno, _col(text_lines, node.end_lineno, node.end_col_offset))

    names_by_pos = {}
    names_by_end = {}
    pscopes = {}
    pimports = []
    for x in walk(m):
        if x.type == 'name':
            names_by_pos[x.start_pos] = x
            names_by_end[x.end_pos] = x
        elif x.type in ('funcdef', 'classdef'):
            pscopes[(x.type, x.children[0].start_pos)] = x
        elif x.type == 'lambdef':
            pscopes[('lambdef', x.start_pos)] = x
        elif x.type in ('import_name', 'import_from'):
            pimports.append(x)

    def _name_at_end(e, name):
        l = names_by_end.get(e)
        return l.start_pos if l is not None else (e[0], e[1] - len(name))

    # ------------------------------------------------------------ definitions
    exp_def = set()
    skip = set()
    nontrivial_target = False
    for n in ast.walk(tree):
        if isinstance(n, ast.Name) and isinstance(n.ctx, (ast.Store, ast.Del)):
            exp_def.add(P(n))
        elif isinstance(n, ast.arg):
            exp_def.add(P(n))
        elif isinstance(n, ast.Attribute) and isinstance(n.ctx, (ast.Store, ast.Del)):
            e = Pend(n)
            exp_def.add(_name_at_end(e, n.attr))
            nontrivial_target = True
        elif isinstance(n, (ast.FunctionDef, ast.AsyncFunctionDef, ast.ClassDef)):
            pos = P(n)
            cands = [p for p, l in names_by_pos.items() if p >= pos and _nf(l.value) == n.name
                     and l.parent.type in ('funcdef', 'classdef') and l.parent.children[1] is l]
            if cands:
                exp_def.add(min(cands))
        elif isinstance(n, ast.alias):
            if n.name == '*':
                continue
            if n.asname:
                e = Pend(n)
                exp_def.add(_name_at_end(e, n.asname))
            else:
                exp_def.add(P(n))
        elif isinstance(n, (ast.Tuple, ast.List, ast.Starred)) and isinstance(getattr(n, 'ctx', None), ast.Store):
            nontrivial_target = True
        elif isinstance(n, (ast.NamedExpr, ast.With, ast.AsyncWith, ast.For, ast.AsyncFor, ast.comprehension)):
            nontrivial_target = True
        elif isinstance(n, (ast.Global, ast.Nonlocal)):
            # names listed in global/nonlocal statements: outside the enumerated claim
            for p, l in names_by_pos.items():
                if p[0] >= n.lineno and p[0] <= n.end_lineno and l.parent.type in ('global_stmt', 'nonlocal_stmt'):
                    skip.add(p)
        elif hasattr(ast, 'TypeVar') and isinstance(n, (ast.TypeVar, ast.ParamSpec, ast.TypeVarTuple)):
            skip.add(P(n))
            # ParamSpec/TypeVarTuple positions point at the stars
            for p, l in names_by_pos.items():
                if l.value == n.name and l.parent.type in ('type_param', 'type_params', 'typevartuple', 'paramspec', 'typevar'):
                    skip.add(p)
        elif hasattr(ast, 'TypeAlias') and isinstance(n, ast.TypeAlias):
            pass
        elif hasattr(ast, 'MatchAs') and isinstance(n, (ast.MatchAs, ast.MatchStar, ast.MatchMapping)):
            # capture patterns bind names but parso has no match statement: such programs have error nodes anyway
            pass
    n_exc_ast = sum(1 for n in ast.walk(tree) if isinstance(n, ast.ExceptHandler) and n.name)
    n_exc_parso = 0
    for pos, l in names_by_pos.items():
        ctx.count('names_checked')
        try:
            isd = l.is_definition()
        except Exception as e:
            info = harness.exc_info(e)
            note('is_definition_raised', '%s in %s: %s at %s' % (info['type'], info['func'], info['line'], pos), exc=info)
            continue
        if l.parent.type == 'except_clause' and l.get_previous_sibling() == 'as':
            n_exc_parso += 1
            if not isd:
                note('except_as_not_definition', 'except ... as %s at %s: is_definition() is False' % (l.value, pos))
            continue
        if pos in skip or l.search_ancestor('type_params', 'type_param') is not None:
            continue
        want = pos in exp_def
        if isd != want:
            anc = []
            a = l.parent
            while a is not None and len(anc) < 5:
                anc.append(a.type)
                a = a.parent
            note('is_definition', 'name %r at %s: is_definition()=%s, CPython binds it here=%s (ancestors %s)' % (l.value, pos, isd, want, anc),
                 got=isd, want=want, ancestors=anc, line_text=text_lines[pos[0] - 1][:120],
                 next_sibling=getattr(l.get_next_sibling(), 'value', None))
    if n_exc_ast != n_exc_parso:
        note('except_as_count', 'AST has %d except-as names, parso tree %d' % (n_exc_ast, n_exc_parso))

    # ------------------------------------------------------------ scopes, functions, docstrings
    has_params = False
    for a in ast.walk(tree):
        if isinstance(a, (ast.FunctionDef, ast.AsyncFunctionDef)):
            # position of the 'def' keyword: after 'async' and decorators
            line = a.lineno
            cands = [p for (t, pos), p in pscopes.items() if t == 'funcdef' and pos[0] >= line and _nf(p.children[1].value) == a.name
                     and pos <= P(a.body[0])]
            cands = [p for p in cands if (p.children[0].start_pos[0] == line) or (p.parent.type == 'async_stmt' and p.parent.start_pos[0] == line)
                     or (p.parent.type == 'async_funcdef' and p.parent.start_pos[0] == line)]
            if len(cands) != 1:
                ctx.count('scope_mapping_ambiguous_skipped')
                continue
            p = cands[0]
        elif isinstance(a, ast.Lambda):
            p = pscopes.get(('lambdef', P(a)))
            if p is None:
                ctx.count('scope_mapping_ambiguous_skipped')
                continue
        elif isinstance(a, ast.ClassDef):
            cands = [p for (t, pos), p in pscopes.items() if t == 'classdef' and pos[0] == a.lineno and _nf(p.children[1].value) == a.name]
            if len(cands) != 1:
                ctx.count('scope_mapping_ambiguous_skipped')
                continue
            p = cands[0]
        elif isinstance(a, ast.Module):
            p = m
        else:
            continue
        ctx.count('scopes_checked')
        lam = isinstance(a, ast.Lambda)
        exp_f = sorted(s.name for s in _stmts_direct(a) if isinstance(s, (ast.FunctionDef, ast.AsyncFunctionDef))) if not lam else []
        exp_c = sorted(s.name for s in _stmts_direct(a) if isinstance(s, ast.ClassDef)) if not lam else []
        exp_i = sum(1 for s in _stmts_direct(a) if isinstance(s, (ast.Import, ast.ImportFrom))) if not lam else 0
        try:
            got_f = sorted(_nf(f.name.value) for f in p.iter_funcdefs())
            got_c = sorted(_nf(c.name.value) for c in p.iter_classdefs())
            got_i = len(list(p.iter_imports()))
        except Exception as e:
            info = harness.exc_info(e)
            note('scope_iteration_raised', '%s in %s: %s' % (info['type'], info['func'], info['line']), exc=info)
            continue
        ln = getattr(a, 'lineno', 0)
        if got_f != exp_f:
            note('iter_funcdefs', 'scope at line %d: iter_funcdefs %s, AST %s' % (ln, got_f[:6], exp_f[:6]))
        if got_c != exp_c:
            note('iter_classdefs', 'scope at line %d: iter_classdefs %s, AST %s' % (ln, got_c[:6], exp_c[:6]))
        if got_i != exp_i:
            note('iter_imports', 'scope at line %d: %d imports, AST %d' % (ln, got_i, exp_i))
        if isinstance(a, (ast.FunctionDef, ast.AsyncFunctionDef, ast.Lambda)):
            ctx.count('functions_checked')
            A = a.args
            exp = []
            npos = len(A.posonlyargs) + len(A.args)
            nd = len(A.defaults)
            for i, arg in enumerate(A.posonlyargs + A.args):
                exp.append((arg.arg, 0, i >= npos - nd, arg.annotation is not None))
            if A.vararg:
                exp.append((A.vararg.arg, 1, False, A.vararg.annotation is not None))
            for arg, d in zip(A.kwonlyargs, A.kw_defaults):
                exp.append((arg.arg, 0, d is not None, arg.annotation is not None))
            if A.kwarg:
                exp.append((A.kwarg.arg, 2, False, A.kwarg.annotation is not None))
            if exp:
                has_params = True
            try:
                got = [(_nf(q.name.value), q.star_count, q.default is not None, q.annotation is not None) for q in p.get_params()]
            except Exception as e:
                info = harness.exc_info(e)
                note('get_params_raised', '%s in %s: %s' % (info['type'], info['func'], info['line']), exc=info)
                continue
            if got != exp:
                note('params', 'function at line %d: get_params %s, AST %s' % (ln, got[:6], exp[:6]))
            if not lam:
                if (p.annotation is not None) != (a.returns is not None):
                    note('return_annotation', 'function at line %d: annotation %r, AST returns %r' % (ln, p.annotation, a.returns))
                eg = any(isinstance(x, (ast.Yield, ast.YieldFrom)) for x in _own(a))
                try:
                    pg = p.is_generator()
                except Exception as e:
                    info = harness.exc_info(e)
                    note('is_generator_raised', '%s in %s' % (info['type'], info['func']), exc=info)
                    continue
                if pg != eg:
                    note('is_generator', 'function %s at line %d: is_generator()=%s, AST has a yield in its own scope=%s' % (a.name, ln, pg, eg),
                         got=pg, want=eg)
                er = sorted(x.lineno for x in _stmts_direct(a) if isinstance(x, ast.Return))
                gr = sorted(x.start_pos[0] for x in p.iter_return_stmts())
                if er != gr:
                    note('return_stmts', 'function %s at line %d: iter_return_stmts lines %s, AST %s' % (a.name, ln, gr[:6], er[:6]))
                er = sorted(x.lineno for x in _stmts_direct(a) if isinstance(x, ast.Raise))
                gr = sorted(x.start_pos[0] for x in p.iter_raise_stmts())
                if er != gr:
                    note('raise_stmts', 'function %s at line %d: iter_raise_stmts lines %s, AST %s' % (a.name, ln, gr[:6], er[:6]))
        if not lam:
            body = a.body
            is_doc = bool(body) and isinstance(body[0], ast.Expr) and isinstance(body[0].value, ast.Constant) \
                and isinstance(body[0].value.value, str)
            try:
                dn = p.get_doc_node()
            except Exception as e:
                info = harness.exc_info(e)
                note('get_doc_node_raised', '%s in %s: %s' % (info['type'], info['func'], info['line']), exc=info)
                continue
            ctx.count('docstring_checks')
            if dn is not None and not is_doc:
                note('doc_node_without_docstring', 'scope at line %d: get_doc_node() %r but CPython sees no docstring' % (ln, dn))
            elif is_doc:
                single = _single_plain_literal(text, body[0].value)
                if single and ast.get_source_segment(text, body[0]) != ast.get_source_segment(text, body[0].value):
                    single = None      # parenthesised literal: outside the claim
                    ctx.count('parenthesised_docstring_not_judged')
                if single is True and dn is None:
                    seg = ast.get_source_segment(text, body[0]) or ''
                    note('docstring_missed', 'scope at line %d: docstring %r written as one plain literal but get_doc_node() is None' % (ln, seg[:40]),
                         segment=seg[:80], parenthesised=seg[:1] == '(')
                elif single is True and dn is not None and dn.start_pos != P(body[0].value):
                    note('doc_node_position', 'scope at line %d: doc node at %s, AST docstring at %s' % (ln, dn.start_pos, P(body[0].value)))

    # ------------------------------------------------------------ imports
    aim = [x for x in ast.walk(tree) if isinstance(x, (ast.Import, ast.ImportFrom))]
    pimports.sort(key=lambda x: x.start_pos)
    aim.sort(key=lambda x: (x.lineno, x.col_offset))
    if len(pimports) != len(aim):
        note('import_count', 'parso tree has %d import statements, AST %d' % (len(pimports), len(aim)))
    else:
        for p_, a_ in zip(pimports, aim):
            ctx.count('imports_checked')
            try:
                if isinstance(a_, ast.ImportFrom):
                    if p_.level != a_.level:
                        note('import_level', 'line %d: level %d, AST %d' % (a_.lineno, p_.level, a_.level))
                    star = any(al.name == '*' for al in a_.names)
                    if p_.is_star_import() != star:
                        note('import_star', 'line %d: is_star_import()=%s' % (a_.lineno, p_.is_star_import()))
                    mod = a_.module.split('.') if a_.module else []
                    exp_paths = [mod] if star else [mod + [al.name] for al in a_.names]
                    exp_names = [] if star else [al.asname or al.name for al in a_.names]
                else:
                    exp_paths = [al.name.split('.') for al in a_.names]
                    exp_names = [al.asname or al.name.split('.')[0] for al in a_.names]
                    if p_.level != 0:
                        note('import_level', 'line %d: import_name level %d' % (a_.lineno, p_.level))
                gp = [[_nf(n.value) for n in pth] for pth in p_.get_paths()]
                gd = [_nf(n.value) for n in p_.get_defined_names()]
                if gp != exp_paths:
                    note('import_paths', 'line %d: get_paths %s, AST %s' % (a_.lineno, gp, exp_paths))
                if gd != exp_names:
                    note('import_defined_names', 'line %d: get_defined_names %s, AST %s' % (a_.lineno, gd, exp_names))
            except Exception as e:
                info = harness.exc_info(e)
                note('import_helper_raised', '%s in %s: %s' % (info['type'], info['func'], info['line']), exc=info)
    if has_params and nontrivial_target:
        ctx.nontriv(text)
    if len(text) < 100:
        ctx.sample({'code': text, 'names': len(names_by_pos), 'definitions_expected': len(exp_def)})


def run_shard(spec, ctx):
    from . import c10
    rng = random.Random(spec['seed'])
    if spec['kind'] == 'stdlib':
        files = (G.stdlib_files(V) + G.repo_files())[spec['offset']::spec['stride']]
        for f in files:
            if ctx.out_of_time():
                ctx.count('stopped_by_time_budget')
                break
            t = G.file_text(f)
            if t is None or len(t) > 400000:
                continue
            ctx.count('files')
            judge(ctx, t, f)
        return
    files = G.stdlib_files(V)[::5] + G.repo_files()
    gen = valid.candidates(rng, files, c10._deriver(V))
    for i in range(spec['n']):
        if ctx.out_of_time():
            ctx.count('stopped_by_time_budget')
            break
        origin, text = next(gen)
        ctx.count('candidates')
        judge(ctx, text, origin)


def replay(w, ctx):
    judge(ctx, w['code'], 'replay')


def shards(tier, seed):
    out = []
    if tier == 'quick':
        for k in range(8):
            out.append({'kind': 'stdlib', 'offset': (seed + k * 2) % 16, 'stride': 16, 'budget_s': 80})
        for k in range(8):
            out.append({'kind': 'generated', 'n': 12000, 'budget_s': 60})
    else:
        for k in range(16):
            out.append({'kind': 'stdlib', 'offset': k, 'stride': 16, 'budget_s': 3000})
        for k in range(16):
            out.append({'kind': 'generated', 'n': 80000, 'budget_s': 1500})
    return out


def floors(tier):
    return {'evaluations': 2000, 'names_checked': 200000, 'functions_checked': 3000, 'imports_checked': 1000, 'docstring_checks': 3000}
