"""C17 - a torn or corrupt cache file is a cache miss, never a failure (DESIGN §2 C17).
Level: fault_enumeration.  Faults are injected from outside: by editing files in a private cache_path,
by rebinding open / pickle / os functions in the *namespace of parso.cache* (module globals shadow
builtins; a harness-side rebinding, not a source change), and by a second real process."""
import builtins
import errno
import os
import pathlib
import pickle
import random
import shutil
import subprocess
import sys
import tempfile
import time as _time
import types

from .. import harness
from ..oracles.common import sig_diff, tree_sig
from . import c16

ID = 'C17'
LEVEL = 'fault_enumeration'
RULE = ('fault points enumerated per module (tiny, with error nodes, 300 lines, f-strings): (1) the pickle truncated at EVERY byte '
        'offset (quick: every offset of the tiny module + 200 spread offsets of the others); (2) overwritten by empty / random bytes / a '
        'valid pickle of a foreign object (int, dict, list, str) / valid prefix + garbage / bit flips at seeded offsets; (3) stray files in '
        'the version directory (*.tmp, sub-directory, zero-byte .pkl) and lock file missing / old / a directory; (4) ENOSPC, '
        'PermissionError, FileNotFoundError, EROFS injected at each file-system call site reached in parso.cache (open, write after n '
        'bytes = short write, pickle.dump/load, os.makedirs, os.path.getmtime, os.utime, os.scandir, os.listdir, DirEntry.stat, os.remove), '
        'each also as a crash (directory snapshot at the fault point reloaded by a new process); (5) two real processes saving/loading '
        'one entry with a delay injected between open and dump. After each fault: parse(path, cache=True) must not raise and must equal '
        'a fresh parse; the following parse must be right as well and the entry repaired on disk. Clean-up under the virtual clock never '
        'removes an entry accessed within 30 days. non-trivial = distinct (fault kind, site/offset, module) actually reached')
ASSUMPTIONS = ['crash model: a crash leaves a prefix of the bytes being written (truncation) or arbitrary content; file systems that reorder writes are not modelled',
               'a well-formed pickle of a *different module\'s* cache item placed under this entry\'s name is not "garbage" and is outside the enumeration',
               'permission faults are injected (the sandbox runs as root, chmod has no effect)']
_state = {}

MODULES = {
    'tiny': 'x = 1\n',
    'errors': 'def f(:\n    x = (\n1 +\nclass A\n    pass\n',
    'fstrings': 'a = f"{x!r:>{w}}"\nb = f"""\n{y}\n"""\n' * 3,
    'long': ''.join('def f%d(a, b=%d):\n    """doc"""\n    return a + b  # c\n\n' % (i, i) for i in range(75)),
}


class Env:
    def __init__(self, name, version='3.10'):
        import parso
        import parso.cache as C
        self.C = C
        self.g = parso.load_grammar(version=version)
        self.root = pathlib.Path(tempfile.mkdtemp(prefix='vmon17-'))
        self.src = self.root / 'm.py'
        self.text = MODULES[name]
        self.src.write_text(self.text, encoding='utf-8')
        old = _time.time() - 100
        os.utime(self.src, (old, old))
        self.cd = self.root / 'cache'
        self.fresh = tree_sig(self.g.parse(self.text))

    def newproc(self):
        self.C.parser_cache.clear()

    def parse(self):
        return self.g.parse(path=self.src, cache=True, cache_path=self.cd)

    def pickle_path(self):
        return pathlib.Path(self.C._get_hashed_path(self.g._hashed, self.src, cache_path=self.cd))

    def seed_entry(self):
        self.newproc()
        if self.cd.exists():
            shutil.rmtree(self.cd)
        self.parse()
        self.newproc()
        return self.pickle_path().read_bytes()

    def close(self):
        self.newproc()
        shutil.rmtree(self.root, ignore_errors=True)


def _after_fault(ctx, env, wit, what, expect_repair=True, **detail):
    """the parse after the fault, and the one after that"""
    for attempt in (1, 2):
        env.newproc() if attempt == 1 else None
        try:
            m = env.parse()
        except Exception as e:
            info = harness.exc_info(e)
            ctx.violation('parse_failed_after_fault' if attempt == 1 else 'second_parse_failed',
                          '%s: parse #%d raised %s: %s in %s: %s' % (what, attempt, info['type'], info['text'][:80], info['func'], info['line']),
                          wit, exc=info, attempt=attempt, **detail)
            return False
        d = sig_diff(tree_sig(m), env.fresh)
        if d:
            ctx.violation('wrong_tree_after_fault', '%s: parse #%d returned a tree that differs from a fresh parse: %s' % (what, attempt, d),
                          wit, attempt=attempt, **detail)
            return False
    if expect_repair:
        # a new process must now be served from a valid entry
        env.newproc()
        try:
            with open(env.pickle_path(), 'rb') as f:
                item = pickle.load(f)
            ok = tree_sig(item.node) == env.fresh
        except Exception as e:
            ok = False
        if not ok:
            ctx.violation('entry_not_repaired', '%s: after two successful parses the entry on disk is still not a valid pickle of the module' % what,
                          wit, **detail)
            return False
        ctx.count('repairs_verified')
    return True


def _unpickle_is_slow(data, limit=3.0):
    """some damaged pickles make pickle.load itself spin for minutes inside C code; that is the pickle module's
    behaviour, so such a case is counted, not judged (watchdog = inconclusive).  Probed in a throw-away process."""
    try:
        subprocess.run([harness.PY, '-c', 'import sys,pickle\nsys.path.insert(0,%r)\ntry:\n pickle.loads(sys.stdin.buffer.read())\nexcept BaseException: pass' % harness.REPO],
                       input=data, timeout=limit, stdout=subprocess.DEVNULL, stderr=subprocess.DEVNULL)
        return False
    except subprocess.TimeoutExpired:
        return True


# ---------------------------------------------------------------- (1)(2)(3) content faults
def shard_content(spec, ctx):
    rng = random.Random(spec['seed'])
    name = spec['module']
    env = Env(name)
    try:
        good = env.seed_entry()
        ctx.count('pickle_bytes:' + name, len(good))
        p = env.pickle_path()
        offsets = list(range(len(good))) if spec.get('all_offsets') else sorted(set(
            list(range(0, min(64, len(good)))) + list(range(max(0, len(good) - 64), len(good))) +
            [rng.randrange(len(good)) for _ in range(spec.get('n_offsets', 200))]))
        offsets = offsets[spec.get('part', 0)::spec.get('parts', 1)]
        for off in offsets:
            if ctx.out_of_time():
                ctx.count('stopped_by_time_budget')
                break
            env.newproc()
            p.write_bytes(good[:off])
            ctx.count('evaluations')
            ctx.count('truncations')
            ctx.nontriv('trunc/%s/%d' % (name, off))
            _after_fault(ctx, env, {'fault': 'truncate', 'module': name, 'offset': off}, 'pickle truncated at byte %d of %d' % (off, len(good)),
                         fault='truncate')
        if spec.get('part', 0) != 0:
            return
        corrupt = [('empty', b''), ('random', bytes(rng.randrange(256) for _ in range(300))),
                   ('foreign_int', pickle.dumps(12345)), ('foreign_dict', pickle.dumps({'a': 1})), ('foreign_list', pickle.dumps([1, 2, 3])),
                   ('foreign_str', pickle.dumps('node')), ('foreign_none', pickle.dumps(None)),
                   ('prefix_garbage', good[:len(good) // 2] + b'\x00garbage\xff' * 20), ('text', b'not a pickle at all\n'),
                   ('proto0', b'(dp0\n.'), ('zeros', b'\x00' * len(good))]
        for k in range(spec.get('n_flips', 64)):
            b = bytearray(good)
            i = rng.randrange(len(b))
            b[i] ^= 1 << rng.randrange(8)
            corrupt.append(('bitflip@%d' % i, bytes(b)))
        for label, data in corrupt:
            env.newproc()
            p.write_bytes(data)
            ctx.count('evaluations')
            ctx.count('corruptions')
            ctx.nontriv('corrupt/%s/%s' % (name, label))
            if label.startswith('bitflip'):
                if _unpickle_is_slow(data):
                    ctx.count('bitflip_slow_unpickle_not_judged')
                    continue
                # a flipped bit may still unpickle to a well-formed but different item: only totality is demanded
                env.newproc()
                try:
                    env.parse()
                except Exception as e:
                    info = harness.exc_info(e)
                    ctx.violation('parse_failed_after_fault', 'pickle with one flipped bit (%s): parse raised %s: %s in %s' % (
                        label, info['type'], info['text'][:80], info['func']), {'fault': 'bitflip', 'module': name, 'label': label}, exc=info, fault='bitflip')
                continue
            _after_fault(ctx, env, {'fault': 'corrupt', 'module': name, 'label': label}, 'pickle overwritten (%s)' % label, fault='corrupt:' + label.split('@')[0])
        # stray files and lock-file states
        vdir = p.parent
        strays = [('tmp_file', lambda: (vdir / 'x.tmp').write_bytes(b'abc')), ('subdir', lambda: (vdir / 'sub.pkl').mkdir(exist_ok=True)),
                  ('zero_pkl', lambda: (vdir / ('0' * 64 + '-' + '1' * 64 + '.pkl')).write_bytes(b'')),
                  ('lock_missing', lambda: (env.cd / 'PARSO-CACHE-LOCK').unlink() if (env.cd / 'PARSO-CACHE-LOCK').exists() else None),
                  ('lock_old', lambda: os.utime(env.cd / 'PARSO-CACHE-LOCK', (1000, 1000)) if (env.cd / 'PARSO-CACHE-LOCK').exists() else None),
                  ('lock_is_dir', lambda: ((env.cd / 'PARSO-CACHE-LOCK').unlink() if (env.cd / 'PARSO-CACHE-LOCK').is_file() else None,
                                           (env.cd / 'PARSO-CACHE-LOCK').mkdir(exist_ok=True))),
                  ('version_dir_is_file', None), ('cache_dir_missing', lambda: shutil.rmtree(env.cd))]
        for label, make in strays:
            env.seed_entry()
            if label == 'version_dir_is_file':
                shutil.rmtree(vdir)
                vdir.write_bytes(b'')
            else:
                make()
            # force a save: the source changes
            env.src.write_text(env.text, encoding='utf-8')
            ctx.count('evaluations')
            ctx.count('stray_states')
            ctx.nontriv('stray/%s/%s' % (name, label))
            _after_fault(ctx, env, {'fault': 'stray', 'module': name, 'label': label}, 'cache directory state %s' % label,
                         expect_repair=label not in ('version_dir_is_file',), fault='stray:' + label)
            if label == 'version_dir_is_file' and vdir.is_file():
                vdir.unlink()
            if (env.cd / 'PARSO-CACHE-LOCK').is_dir():
                (env.cd / 'PARSO-CACHE-LOCK').rmdir()
    finally:
        env.close()


# ---------------------------------------------------------------- (4) exceptions at each fs call site
class Fault(Exception):
    pass


def _mk_exc(kind):
    if kind == 'ENOSPC':
        return OSError(errno.ENOSPC, 'No space left on device')
    if kind == 'EROFS':
        return OSError(errno.EROFS, 'Read-only file system')
    if kind == 'EACCES':
        return PermissionError(errno.EACCES, 'Permission denied')
    if kind == 'ENOENT':
        return FileNotFoundError(errno.ENOENT, 'No such file or directory')
    if kind == 'EIO':
        return OSError(errno.EIO, 'Input/output error')
    raise ValueError(kind)


class Injector:
    """wraps the file-system entry points in parso.cache's namespace; counts calls per site; raises at the armed one"""

    def __init__(self, C):
        self.C = C
        self.calls = []
        self.armed = None     # (site, nth, kind)
        self.fired = False
        self.snapshot_dir = None
        self.snapshot_to = None
        self._orig = {}

    def _hit(self, site):
        self.calls.append(site)
        if self.armed and not self.fired and self.armed[0] == site and self.calls.count(site) == self.armed[1]:
            self.fired = True
            if self.snapshot_dir is not None and self.snapshot_to is not None and os.path.isdir(self.snapshot_dir):
                shutil.copytree(self.snapshot_dir, self.snapshot_to)
            raise _mk_exc(self.armed[2])

    def install(self):
        C, inj = self.C, self
        real_open = builtins.open

        class ShortWriteFile:
            def __init__(self, f, limit):
                self._f, self._left = f, limit

            def write(self, data):
                inj.calls.append('file.write')
                if inj.armed and not inj.fired and inj.armed[0] == 'file.write':
                    n = inj.armed[1]
                    self._f.write(bytes(data)[:n])
                    self._f.flush()
                    inj.fired = True
                    if inj.snapshot_dir is not None and inj.snapshot_to is not None:
                        shutil.copytree(inj.snapshot_dir, inj.snapshot_to)
                    raise _mk_exc(inj.armed[2])
                return self._f.write(data)

            def __getattr__(self, a):
                return getattr(self._f, a)

            def __enter__(self):
                return self

            def __exit__(self, *a):
                return self._f.__exit__(*a)

        def open_(path, mode='r', *a, **k):
            site = 'open(%s)' % ('w' if ('w' in mode or 'a' in mode) else 'r')
            inj._hit(site)
            f = real_open(path, mode, *a, **k)
            if 'w' in mode and 'b' in mode:
                return ShortWriteFile(f, None)
            return f
        C.open = open_

        def wrap_mod(modname, attrs):
            real = getattr(C, modname)
            shim = types.SimpleNamespace()
            for a in dir(real):
                if not a.startswith('__'):
                    setattr(shim, a, getattr(real, a))
            for a in attrs:
                fn = getattr(real, a)

                def w(*args, _fn=fn, _site='%s.%s' % (modname, a), **kw):
                    inj._hit(_site)
                    return _fn(*args, **kw)
                setattr(shim, a, w)
            self._orig[modname] = real
            setattr(C, modname, shim)
            return shim, real
        osshim, realos = wrap_mod('os', ['makedirs', 'utime', 'scandir', 'listdir', 'remove'])
        pathshim = types.SimpleNamespace(**{a: getattr(realos.path, a) for a in dir(realos.path) if not a.startswith('__')})

        def getmtime(p):
            inj._hit('os.path.getmtime')
            return realos.path.getmtime(p)
        pathshim.getmtime = getmtime
        osshim.path = pathshim

        real_scandir = realos.scandir

        class Entry:
            def __init__(self, e):
                self._e = e
                self.path = e.path
                self.name = e.name

            def stat(self, *a, **k):
                inj._hit('DirEntry.stat')
                return self._e.stat(*a, **k)

        def scandir(p):
            inj._hit('os.scandir')
            return [Entry(e) for e in real_scandir(p)]
        osshim.scandir = scandir
        wrap_mod('pickle', ['dump', 'load'])

    def uninstall(self):
        C = self.C
        if 'open' in vars(C):
            del C.open
        for k, v in self._orig.items():
            setattr(C, k, v)


SCENARIOS = ['cold_save', 'warm_disk_load', 'resave_after_change', 'maintenance']


def _prepare(env, scen, C):
    """bring the world into the state from which the faulty parse starts"""
    env.newproc()
    if env.cd.exists():
        shutil.rmtree(env.cd)
    if scen == 'cold_save':
        return
    env.parse()
    env.newproc()
    if scen == 'resave_after_change':
        env.src.write_text(env.text, encoding='utf-8')     # newer mtime, same content
    if scen == 'maintenance':
        env.src.write_text(env.text, encoding='utf-8')
        lock = env.cd / 'PARSO-CACHE-LOCK'
        if lock.exists():
            os.utime(lock, (1000, 1000))      # older than a day: clean-up will run
        # a second, unrelated entry that is in use
        other = env.pickle_path().parent / ('a' * 64 + '-' + 'b' * 64 + '.pkl')
        other.write_bytes(pickle.dumps(C._NodeCacheItem(None, [], 0)))


def shard_exceptions(spec, ctx):
    import parso.cache as C
    name = spec['module']
    env = Env(name)
    inj = Injector(C)
    inj.install()
    try:
        for scen in SCENARIOS:
            # 1. record which sites this scenario reaches
            _prepare(env, scen, C)
            inj.calls, inj.armed, inj.fired = [], None, False
            try:
                env.parse()
            except Exception as e:
                info = harness.exc_info(e)
                ctx.violation('parse_failed_without_fault', 'scenario %s without any fault raised %s: %s' % (scen, info['type'], info['text'][:80]),
                              {'fault': 'none', 'scenario': scen, 'module': name}, exc=info)
                continue
            reached = []
            for s in inj.calls:
                n = reached.count(s) + 1
                reached.append(s)
            points = []
            seen = {}
            for s in inj.calls:
                seen[s] = seen.get(s, 0) + 1
                if s != 'file.write':
                    points.append((s, seen[s]))
            if 'file.write' in seen:
                points += [('file.write', n) for n in (0, 1, 7, 40, 10 ** 9)]
            for s, n in points:
                ctx.observe('fault_sites', s)
            for (site, nth) in points:
                kinds = ['ENOSPC', 'EACCES', 'ENOENT', 'EROFS'] if site != 'file.write' else ['ENOSPC', 'EIO']
                if site in ('pickle.load', 'open(r)', 'os.path.getmtime', 'DirEntry.stat', 'os.scandir', 'os.listdir'):
                    kinds = ['ENOENT', 'EACCES', 'EIO']
                for kind in kinds:
                    if ctx.out_of_time():
                        ctx.count('stopped_by_time_budget')
                        return
                    _prepare(env, scen, C)
                    snap = env.root / 'snap'
                    if snap.exists():
                        shutil.rmtree(snap)
                    inj.calls, inj.armed, inj.fired = [], (site, nth, kind), False
                    inj.snapshot_dir, inj.snapshot_to = str(env.cd), str(snap)
                    wit = {'fault': 'exception', 'scenario': scen, 'module': name, 'site': site, 'nth': nth, 'errno': kind}
                    what = '%s at %s #%d during %s' % (kind, site, nth, scen)
                    ctx.count('evaluations')
                    try:
                        m = env.parse()
                        ok = True
                    except Exception as e:
                        info = harness.exc_info(e)
                        ok = False
                        ctx.violation('injected_fault_escaped', '%s: parse raised %s: %s (in %s: %s)' % (what, info['type'], info['text'][:80], info['func'], info['line']),
                                      wit, exc=info, site=site, errno=kind, scenario=scen)
                    inj.armed = None
                    if not inj.fired:
                        ctx.count('fault_point_not_reached')
                        continue
                    ctx.count('exception_faults_fired')
                    ctx.nontriv('exc/%s/%s/%s/%d/%s' % (name, scen, site, nth, kind))
                    if ok:
                        d = sig_diff(tree_sig(m), env.fresh)
                        if d:
                            ctx.violation('wrong_tree_after_fault', '%s: the faulty call itself returned a wrong tree: %s' % (what, d), wit, site=site)
                    # faults stop: exception model (same process state) ...
                    _after_fault(ctx, env, wit, what + ' (then faults stop)', expect_repair=True, fault='exception', site=site, errno=kind, scenario=scen)
                    # ... and crash model: the directory as it was at the fault point, new process
                    if snap.exists():
                        env.newproc()
                        if env.cd.exists():
                            shutil.rmtree(env.cd)
                        shutil.copytree(snap, env.cd)
                        ctx.count('crash_snapshots_replayed')
                        _after_fault(ctx, env, dict(wit, crash=True), what + ' (crash: directory state at the fault point, new process)',
                                     expect_repair=True, fault='crash', site=site, errno=kind, scenario=scen)
    finally:
        inj.uninstall()
        env.close()


# ---------------------------------------------------------------- clean-up never removes entries in use
def shard_cleanup(spec, ctx):
    import parso.cache as C
    c16._install(ctx)
    clk = c16._state['clk']
    rng = random.Random(spec['seed'])
    for rnd in range(spec['n']):
        env = Env('tiny')
        try:
            env.seed_entry()
            vdir = env.pickle_path().parent
            now = clk.tick()
            files = {}
            for k in range(rng.randint(2, 12)):
                # age = time since the last *access*; the entry may have been written long before (stable module read daily)
                age = rng.choice([0, 60, 86400, 29 * 86400, 29.99 * 86400, 30.01 * 86400, 31 * 86400, 400 * 86400])
                written = age + rng.choice([0, 0, 3600, 40 * 86400, 500 * 86400])
                p = vdir / ('%064x-%064x.pkl' % (rng.getrandbits(200), rng.getrandbits(200)))
                full = pickle.dumps(C._NodeCacheItem(None, [], 0))
                # what a save by another process looks like at the moment the clean-up runs: complete, or just opened
                # (empty), or half written; or what a crash left behind earlier
                state = rng.choice(['complete', 'complete', 'empty', 'half'])
                p.write_bytes({'complete': full, 'empty': b'', 'half': full[:len(full) // 2]}[state])
                os.utime(p, (now - age, now - written))
                files[p] = (age, p.read_bytes())
                ctx.count('cleanup_saw_%s_entries' % state)
            # the cache root is shared by all interpreters, one version directory each: a young entry of another interpreter is in use
            odir = env.cd / rng.choice(['CPython-311-33', 'CPython-38-33', 'PyPy-310-33', 'CPython-313-34'])
            odir.mkdir(exist_ok=True)
            oentry = odir / ('%064x-%064x.pkl' % (rng.getrandbits(200), rng.getrandbits(200)))
            oentry.write_bytes(b'entry of another interpreter')
            os.utime(oentry, (now - 60, now - 3600))
            other = env.cd / 'not-a-version-dir.txt'
            other.write_bytes(b'keep me')
            os.utime(other, (now - 400 * 86400,) * 2)
            os.utime(env.pickle_path(), (now, now))
            lock = env.cd / 'PARSO-CACHE-LOCK'
            os.utime(lock, (now - 2 * 86400,) * 2)
            env.src.write_text(env.text, encoding='utf-8')
            os.utime(env.src, (now, now))
            # a save by another process that is in progress while the clean-up runs: the file is open, nothing flushed yet
            inprog = vdir / ('%064x-%064x.pkl' % (rng.getrandbits(200), rng.getrandbits(200)))
            inprog_f = open(inprog, 'wb')
            os.utime(inprog, (now, now))
            env.newproc()
            ctx.count('evaluations')
            ctx.count('cleanup_rounds')
            wit = {'fault': 'cleanup', 'ages_days': sorted(round(a / 86400, 2) for a, _ in files.values())}
            try:
                m = env.parse()
            except Exception as e:
                info = harness.exc_info(e)
                ctx.violation('parse_failed_after_fault', 'clean-up round raised %s: %s' % (info['type'], info['text'][:80]), wit, exc=info, fault='cleanup')
                inprog_f.close()
                continue
            ctx.nontriv('cleanup/%r' % (wit['ages_days'],))
            for p, (age, data) in files.items():
                if age < 30 * 86400 - 1:
                    ctx.count('young_entries_checked')
                    if not p.exists() or p.read_bytes() != data:
                        ctx.violation('entry_in_use_removed', 'entry last accessed %.2f days ago was removed or changed by the clean-up' % (age / 86400), wit, age_days=age / 86400)
                elif age > 30 * 86400 + 1 and not p.exists():
                    ctx.count('old_entries_removed')
            payload = pickle.dumps(C._NodeCacheItem(None, ['in progress\n'], now))
            inprog_f.write(payload)
            inprog_f.close()
            ctx.count('saves_in_progress_during_cleanup')
            if not inprog.exists() or inprog.read_bytes() != payload:
                ctx.violation('entry_in_use_removed', 'an entry another process was saving while the clean-up ran (file open, still empty) is gone afterwards',
                              wit, age_days=0, in_progress=True)
            ctx.count('other_interpreter_entries_checked')
            if not oentry.exists() or oentry.read_bytes() != b'entry of another interpreter':
                ctx.violation('entry_in_use_removed', "a young entry in another interpreter's version directory (%s) was removed by the clean-up" % odir.name,
                              wit, age_days=60 / 86400, other_interpreter=True)
            if not other.exists():
                ctx.violation('non_cache_file_removed', 'a file outside the version directories was removed', wit)
            if not env.pickle_path().exists():
                ctx.violation('entry_in_use_removed', 'the entry just saved was removed', wit, age_days=0)
        finally:
            env.close()


# ---------------------------------------------------------------- (5) two real processes
_TWO_PROC = r'''
import sys, os, time, pathlib, pickle
sys.path.insert(0, sys.argv[1])
import parso, parso.cache as C
role, src, cd, n = sys.argv[2], pathlib.Path(sys.argv[3]), pathlib.Path(sys.argv[4]), int(sys.argv[5])
g = parso.load_grammar(version='3.10')
text = src.read_text()
fresh = g.parse(text).dump(indent=None)
if role == 'writer':
    real_dump = pickle.dump
    def slow_dump(obj, f, proto):
        data = pickle.dumps(obj, proto)
        h = len(data) // 2
        f.write(data[:h]); f.flush(); time.sleep(0.0005); f.write(data[h:])
    import types
    shim = types.SimpleNamespace(**{a: getattr(pickle, a) for a in dir(pickle) if not a.startswith('__')})
    shim.dump = slow_dump
    C.pickle = shim
bad = 0
for i in range(n):
    C.parser_cache.clear()
    if role == 'writer':
        os.utime(src, None)        # newer mtime: forces a re-parse and a save
    try:
        m = g.parse(path=src, cache=True, cache_path=cd)
        if m.dump(indent=None) != fresh:
            print('WRONG', i); bad += 1
    except Exception as e:
        print('RAISED', i, type(e).__name__, str(e)[:80]); bad += 1
        if bad > 5: break
print('DONE', role, bad)
'''


def shard_twoproc(spec, ctx):
    root = pathlib.Path(tempfile.mkdtemp(prefix='vmon17p-'))
    try:
        src = root / 'm.py'
        src.write_text(MODULES['long'], encoding='utf-8')
        cd = root / 'cache'
        n = spec['n']
        procs = [subprocess.Popen([harness.PY, '-c', _TWO_PROC, harness.REPO, role, str(src), str(cd), str(n)],
                                  stdout=subprocess.PIPE, stderr=subprocess.STDOUT, env=dict(os.environ, PYTHONDONTWRITEBYTECODE='1'))
                 for role in ('writer', 'reader', 'reader')]
        outs = []
        for p in procs:
            try:
                out, _ = p.communicate(timeout=spec.get('budget_s', 120))
            except subprocess.TimeoutExpired:
                p.kill()
                out, _ = p.communicate()
                ctx.count('two_process_timeout')
            outs.append(out.decode('utf-8', 'replace'))
        ctx.count('evaluations', 3 * n)
        ctx.count('two_process_parses', 3 * n)
        ctx.nontriv('twoproc/%d' % n)
        for role, out in zip(('writer', 'reader', 'reader'), outs):
            lines = [l for l in out.splitlines() if l.startswith(('RAISED', 'WRONG'))]
            if lines:
                l0 = lines[0].split()
                ctx.violation('concurrent_writer_' + l0[0].lower(), '%s process: %s (%d such parses)' % (role, lines[0], len(lines)),
                              {'fault': 'two_processes', 'n': n}, role=role, exc_type=l0[2] if len(l0) > 2 else None)
            if 'DONE' not in out:
                ctx.count('two_process_incomplete')
    finally:
        shutil.rmtree(root, ignore_errors=True)


def run_shard(spec, ctx):
    {'content': shard_content, 'exceptions': shard_exceptions, 'cleanup': shard_cleanup, 'twoproc': shard_twoproc}[spec['kind']](spec, ctx)


def replay(w, ctx):
    f = w.get('fault')
    if f in ('truncate', 'corrupt', 'stray', 'bitflip'):
        shard_content({'seed': 0, 'module': w['module'], 'all_offsets': False, 'n_offsets': 0, 'n_flips': 64}, ctx)
    elif f in ('exception',):
        shard_exceptions({'seed': 0, 'module': w['module']}, ctx)
    elif f == 'cleanup':
        shard_cleanup({'seed': 0, 'n': 50}, ctx)
    else:
        shard_twoproc({'n': 300}, ctx)


def shards(tier, seed):
    q = tier == 'quick'
    out = [{'kind': 'content', 'module': 'tiny', 'all_offsets': True, 'n_flips': 64, 'budget_s': 100 if q else 600}]
    for name in ('errors', 'fstrings', 'long'):
        if q:
            out.append({'kind': 'content', 'module': name, 'n_offsets': 200, 'n_flips': 32, 'budget_s': 100})
        else:
            for k in range(3):
                out.append({'kind': 'content', 'module': name, 'all_offsets': True, 'n_flips': 128, 'part': k, 'parts': 3, 'budget_s': 3000})
    for name in (('tiny', 'errors') if q else MODULES):
        out.append({'kind': 'exceptions', 'module': name, 'budget_s': 100 if q else 1500})
    out.append({'kind': 'cleanup', 'n': 60 if q else 600})
    out.append({'kind': 'twoproc', 'n': 400 if q else 4000, 'budget_s': 120 if q else 900})
    return out


def floors(tier):
    return {'evaluations': 1500, 'truncations': 700, 'corruptions': 100, 'exception_faults_fired': 100, 'crash_snapshots_replayed': 50,
            'cleanup_rounds': 30, 'young_entries_checked': 50, 'saves_in_progress_during_cleanup': 30, 'cleanup_saw_empty_entries': 20, 'two_process_parses': 600, 'set:fault_sites': 8}


def extra_coverage(m, tier):
    return {'exhaustive': False, 'truncation_offsets_exhaustive_for': 'tiny (quick); all four modules (thorough)'}
