"""C18 - parsing is a pure function of its arguments: isolated, reentrant, thread-safe (DESIGN §2 C18).
(a) 2-8 threads run load_grammar/parse/iter_errors/_get_normalizer_issues/tokenize on different texts
    through the same grammar objects, cold start included, with a tiny switch interval and (yield injection)
    sleep(0) at seeded LINE events inside parso; results compared with a sequential replay in the same
    process and with a replay in a fresh process.
(b) deep, identity-aware fingerprint of all shared parso state at quiescent points."""
import enum
import json
import os
import random
import re
import subprocess
import sys
import threading
import time
import types
import warnings

from .. import harness
from ..gen import text as G
from ..oracles.common import tree_sig

ID = 'C18'
LEVEL = 'exploration'
RULE = ('batches of 16-64 calls (load_grammar -> parse -> iter_errors -> _get_normalizer_issues -> tokenize; texts = hostile mix with '
        'many string literals, versions mixed) run by 2-8 threads on shared grammar objects, the first batch cold (grammar loading and '
        'first-use memoisation race included), sys.setswitchinterval(1e-6), plus sleep(0) yield injection at seeded sys.monitoring LINE '
        'events inside parso code; each call\'s result (tree signature, issue lists, token list, or exception type) must equal the same '
        'call made sequentially afterwards and in a fresh process; grammar loading order and prior calls are permuted. A deep fingerprint '
        '(module globals, class attributes, function defaults, loaded grammars with DFA tables/plans/reserved strings, rule registries, '
        'warnings.filters) taken at quiescent points may differ only by new keys in the two memo dictionaries. non-trivial = distinct '
        'batch in which >= 2 threads were observed inside parso code interleaved')
ASSUMPTIONS = ['interleavings are at statement granularity (where the GIL can switch); free-threaded builds are out of scope',
               '__warningregistry__ module globals are excluded from the fingerprint (written by the interpreter\'s warning machinery)']
TOOL = 1
ATOM = (str, bytes, int, float, bool, type(None), complex)
MEMO_PREFIXES = ('parso.grammar:_loaded_grammars', 'parso.python.tokenize:_token_collection_cache')


def fingerprint():
    """identity-aware structural fingerprint: path -> descriptor"""
    out = {}
    seen = {}
    sys.setrecursionlimit(max(sys.getrecursionlimit(), 20000))
    stack = []

    def push(path, o):
        stack.append((path, o))

    def visit(path, o):
        if isinstance(o, ATOM):
            out[path] = ('atom', o if not isinstance(o, float) or o == o else 'nan')
            return
        if isinstance(o, re.Pattern):
            out[path] = ('re', o.pattern, o.flags)
            return
        if isinstance(o, enum.Enum):
            out[path] = ('enum', str(o))
            return
        if isinstance(o, types.ModuleType):
            out[path] = ('module', o.__name__)
            return
        oid = id(o)
        if oid in seen:
            out[path] = ('ref', seen[oid])
            return
        seen[oid] = path
        if isinstance(o, types.FunctionType):
            out[path] = ('func', o.__qualname__, id(o.__code__))
            push(path + '.__defaults__', o.__defaults__)
            push(path + '.__kwdefaults__', o.__kwdefaults__)
            return
        if isinstance(o, (types.BuiltinFunctionType, types.MethodType, staticmethod, classmethod, property, types.MethodDescriptorType,
                          types.WrapperDescriptorType, types.GetSetDescriptorType, types.MemberDescriptorType)):
            out[path] = ('callable', repr(type(o)))
            f = getattr(o, '__func__', None)
            if f is not None:
                push(path + '.__func__', f)
            return
        if isinstance(o, type):
            out[path] = ('class', o.__module__, o.__qualname__)
            if (o.__module__ or '').startswith('parso'):
                for k, v in sorted(vars(o).items()):
                    if k in ('__dict__', '__weakref__', '__doc__', '__module__', '_abc_impl', '__abstractmethods__', '__annotations__',
                             '__parameters__', '__orig_bases__', '__static_attributes__', '__firstlineno__'):
                        continue
                    push(path + '.' + k, v)
            return
        if isinstance(o, dict):
            out[path] = ('dict', len(o))
            for k, v in o.items():
                kk = k if isinstance(k, ATOM) else (repr(k) if isinstance(k, (tuple, enum.Enum)) else '%s@%s' % (
                    type(k).__name__, getattr(k, 'value', None) if type(k).__name__ == 'ReservedString' else seen.get(id(k), '?')))
                push(path + '[%r]' % (kk,), v)
            return
        if isinstance(o, (list, tuple)):
            out[path] = (type(o).__name__, len(o))
            for i, v in enumerate(o):
                push(path + '[%d]' % i, v)
            return
        if isinstance(o, (set, frozenset)):
            out[path] = ('set', tuple(sorted(map(repr, o))))
            return
        out[path] = ('obj', type(o).__module__, type(o).__qualname__)
        if (type(o).__module__ or '').startswith('parso'):
            d = getattr(o, '__dict__', None)
            if d is not None:
                for k, v in d.items():
                    push(path + '.' + k, v)
            for klass in type(o).__mro__:
                for sl in getattr(klass, '__slots__', ()) or ():
                    if hasattr(o, sl):
                        push(path + '.' + sl, getattr(o, sl))
    roots = []
    memo_roots = []
    for name, mod in sorted(sys.modules.items()):
        if name == 'parso' or name.startswith('parso.'):
            for k, v in sorted(vars(mod).items()):
                if k in ('__builtins__', '__warningregistry__', '__cached__', '__spec__', '__loader__', '__doc__'):
                    continue
                p = name + ':' + k
                (memo_roots if p.startswith(MEMO_PREFIXES) else roots).append((p, v))
    # static roots first, memo dictionaries last, so that shared objects keep a stable path
    for p, v in roots + memo_roots:
        stack.append((p, v))
        # depth-first, but deterministic: process this root completely before the next
        while stack:
            pp, oo = stack.pop()
            visit(pp, oo)
    out['warnings.filters'] = ('atom', repr(warnings.filters))
    return out


def fp_diff(a, b):
    """differences that are not first-use memoisation"""
    bad = []
    for k in set(a) | set(b):
        if a.get(k) == b.get(k):
            continue
        if k.startswith(MEMO_PREFIXES):
            if k not in a:
                continue                      # new entry (or something below a new entry)
            if k in MEMO_PREFIXES and a[k][0] == 'dict' and b.get(k, ('',))[0] == 'dict' and b[k][1] >= a[k][1]:
                continue                      # the memo dict itself grew
        bad.append((k, a.get(k), b.get(k)))
    return sorted(bad, key=lambda x: x[0])


# ---------------------------------------------------------------- the calls
def one_call(v, text, path=None):
    """the observable result of the full API chain for one text (exceptions are results too); `path` names a file that exists on disk
    with another content and was parsed with cache=True earlier in this process - a non-caching parse must not care"""
    import parso
    from parso.python.tokenize import tokenize
    g = parso.load_grammar(version=v)
    out = {}
    if path == '<eval_input>':
        # the other documented start rule (strict only), on the same shared grammar object as everybody else
        try:
            m = g.parse(text, error_recovery=False, start_symbol='eval_input')
            return {'eval_tree': hash(tuple(tree_sig(m))), 'nodes': len(tree_sig(m))}
        except Exception as e:
            return {'eval_exc': type(e).__name__}
    try:
        m = g.parse(text) if path is None else g.parse(text, path=path)
        out['tree'] = hash(tuple(tree_sig(m)))
        out['nodes'] = len(tree_sig(m))
    except Exception as e:
        return {'parse_exc': type(e).__name__}
    try:
        out['errors'] = [(i.code, i.message, tuple(i.start_pos), tuple(i.end_pos)) for i in g.iter_errors(m)]
    except Exception as e:
        out['errors'] = 'EXC ' + type(e).__name__
    try:
        out['style'] = [(i.code, i.message, tuple(i.start_pos)) for i in g._get_normalizer_issues(m)]
    except Exception as e:
        out['style'] = 'EXC ' + type(e).__name__
    try:
        out['tokens'] = hash(tuple((t.type.name, t.string, t.start_pos, t.prefix) for t in tokenize(text, version_info=g.version_info)))
    except Exception as e:
        out['tokens'] = 'EXC ' + type(e).__name__
    return out


def make_batch(rng, files, n, maxlen=10 ** 9, paths=None):
    texts = []
    for i in range(n):
        r = rng.random()
        if r < .35:
            t = G.hostile(rng, files)
        elif r < .6:
            t = ''.join(rng.choice(G.RULE_TRIGGERS) for _ in range(rng.randint(1, 4)))
        elif r < .8:
            t = ''.join('s%d = %s\n' % (k, rng.choice(['"a\\d"', "b'\\xff'", 'f"{x!r}"', '"\\N{DASH}"', 'rb"\\d"', "'\\400'", 'u"\\8"', '"\\x1"']))
                        for k in range(rng.randint(1, 8)))
        else:
            t = G.corpus_slice(rng, files, maxlines=40, inject=(0, 1))
        texts.append((rng.choice(harness.VERSIONS), t[:maxlen], rng.choice(paths) if paths and rng.random() < .15 else None))
        if rng.random() < .12:
            # a long expression for eval_input (long enough for the threads to overlap inside the parser)
            k = rng.randint(50, 400)
            e = rng.choice([' + '.join('a%d' % j for j in range(k)), '[' + ', '.join('f(%d, k=%d)' % (j, j) for j in range(k)) + ']',
                            ' if c else '.join('x%d' % j for j in range(k // 4 + 2)), '(' * (k // 8) + '1' + ')' * (k // 8), 'lambda: (' + ' , '.join(['y'] * k) + ')'])
            texts.append((rng.choice(harness.VERSIONS), e, '<eval_input>'))
    return texts


def cached_files():
    """three files on disk, parsed with cache=True through every grammar (memory entries + pickles in a private directory)"""
    import parso
    import tempfile
    root = tempfile.mkdtemp(prefix='vmon18-')
    paths = []
    for k, content in enumerate(['import os\n\n\ndef cached_function(a):\n    return a\n', 'class Cached:\n    x = 1\n', 'cached = [\n    1,\n]\n']):
        p = os.path.join(root, 'm%d.py' % k)
        with open(p, 'w') as f:
            f.write(content)
        paths.append(p)
    for v in harness.VERSIONS:
        g = parso.load_grammar(version=v)
        for p in paths:
            g.parse(path=p, cache=True, cache_path=os.path.join(root, 'cache'))
    return root, paths


class Interleave:
    """evidence + yield injection: LINE events in parso code"""

    def __init__(self, rng, p_yield):
        self.rng = rng
        self.p = p_yield
        self.lock = threading.Lock()
        self.last = None
        self.switches = set()
        self.n_switch = 0
        self.n_yield = 0
        self.on = False

    def start(self):
        mon = sys.monitoring
        root = os.path.realpath(harness.REPO) + os.sep + 'parso' + os.sep
        mon.use_tool_id(TOOL, 'vmon-yield')

        def on_line(code, line):
            if not code.co_filename.startswith(root):
                return mon.DISABLE
            tid = threading.get_ident()
            y = False
            with self.lock:
                last = self.last
                if last is not None and last[0] != tid:
                    self.n_switch += 1
                    if len(self.switches) < 3000:
                        self.switches.add((last[1], code.co_name))
                self.last = (tid, code.co_name)
                if self.p and self.rng.random() < self.p:
                    y = True
                    self.n_yield += 1
            if y:
                time.sleep(0)
            return None
        mon.register_callback(TOOL, mon.events.LINE, on_line)
        mon.set_events(TOOL, mon.events.LINE)
        self.on = True

    def stop(self):
        if self.on:
            sys.monitoring.set_events(TOOL, 0)
            sys.monitoring.free_tool_id(TOOL)
            self.on = False


def run_batch_threads(texts, nthreads):
    res = [None] * len(texts)

    def worker(k):
        for i in range(k, len(texts), nthreads):
            try:
                res[i] = one_call(*texts[i])
            except BaseException as e:      # a crash of the worker is a result, too
                res[i] = {'worker_exc': type(e).__name__ + ': ' + str(e)[:80]}
    ths = [threading.Thread(target=worker, args=(k,)) for k in range(nthreads)]
    old = sys.getswitchinterval()
    sys.setswitchinterval(1e-6)
    try:
        for t in ths:
            t.start()
        for t in ths:
            t.join()
    finally:
        sys.setswitchinterval(old)
    return res


_FRESH = r'''
import sys, json
sys.path.insert(0, sys.argv[1]); sys.path.insert(0, sys.argv[2])
from vmon import harness
harness.import_parso()
from vmon.props import c18
texts = json.load(sys.stdin)
order = json.loads(sys.argv[3])
res = {}
for i in order:
    res[i] = c18.one_call(*texts[i])
print(json.dumps([res[i] for i in range(len(texts))]))
'''


def fresh_process(texts, order):
    p = subprocess.run([harness.PY, '-c', _FRESH, harness.VERIF, harness.REPO, json.dumps(order)], input=json.dumps(texts).encode(),
                       stdout=subprocess.PIPE, stderr=subprocess.PIPE, timeout=300,
                       env=dict(os.environ, PYTHONHASHSEED='0', PYTHONDONTWRITEBYTECODE='1'))
    if p.returncode != 0:
        return None
    return json.loads(p.stdout.decode())


def _norm(r):
    return json.loads(json.dumps(r))


def run_shard(spec, ctx):
    import parso
    rng = random.Random(spec['seed'])
    files = G.corpus_files()
    il = Interleave(random.Random(spec['seed'] + 1), spec.get('p_yield', 0.0))
    if spec.get('monitor', True):
        il.start()
    f_filters0 = list(warnings.filters)
    fp_prev = None
    croot, cpaths = cached_files()
    try:
        for b in range(spec['batches']):
            if ctx.out_of_time():
                ctx.count('stopped_by_time_budget')
                break
            n = rng.choice(spec.get('sizes', [16, 32, 64]))
            texts = make_batch(rng, files, n, spec.get('maxlen', 10 ** 9), cpaths)
            n = len(texts)
            ctx.count('eval_input_calls', sum(1 for t in texts if t[2] == '<eval_input>'))
            nthreads = rng.choice(spec.get('threads', [2, 3, 4, 8]))
            before = il.n_switch
            conc = run_batch_threads(texts, nthreads)
            ctx.count('evaluations', n)
            ctx.count('batches')
            ctx.count('concurrent_calls', n)
            switched = il.n_switch - before
            ctx.count('thread_switches_inside_parso', switched)
            if switched >= 2 or not il.on:
                ctx.nontriv(repr(texts))
                ctx.count('batches_with_interleaving')
            # quiescent point: sequential replay in the same process (monitoring quiet: no yields needed)
            order = list(range(n))
            rng.shuffle(order)
            seq = {}
            for i in order:
                seq[i] = one_call(*texts[i])
            w = {'texts': texts, 'threads': nthreads, 'cold': b == 0}
            for i in range(n):
                if texts[i][2] is not None and texts[i][2] != '<eval_input>':
                    # the path of a file that is in the cache (memory and disk) with another content must not change a non-caching parse
                    ctx.count('non_caching_parses_with_a_cached_path')
                    plain = one_call(texts[i][0], texts[i][1])
                    if _norm(plain) != _norm(seq[i]):
                        keys = [k for k in set(plain) | set(seq[i]) if _norm(plain).get(k) != _norm(seq[i]).get(k)]
                        ctx.violation('path_option_changes_result', 'call %d (%s, %r...): parse(code, path=<cached file>) differs from parse(code) in %s' % (
                            i, texts[i][0], texts[i][1][:40], keys), {'texts': [texts[i]], 'threads': 1}, index=i, keys=keys)
                        break
            for i in range(n):
                if _norm(conc[i]) != _norm(seq[i]):
                    keys = [k for k in set(conc[i]) | set(seq[i]) if _norm(conc[i]).get(k) != _norm(seq[i]).get(k)]
                    ctx.violation('concurrent_result_differs', 'call %d (%s, %r...): concurrent result differs from the sequential one in %s: %r vs %r' % (
                        i, texts[i][0], texts[i][1][:40], keys, {k: conc[i].get(k) for k in keys}, {k: seq[i].get(k) for k in keys}),
                        w, index=i, keys=keys, cold=b == 0)
                    break
            if b % spec.get('fresh_every', 10) == 0:
                order2 = list(range(n))
                rng.shuffle(order2)
                fr = fresh_process(texts, order2)
                if fr is None:
                    ctx.count('fresh_process_failed')
                else:
                    ctx.count('fresh_process_replays')
                    for i in range(n):
                        if _norm(fr[i]) != _norm(seq[i]):
                            keys = [k for k in set(fr[i]) | set(seq[i]) if fr[i].get(k) != _norm(seq[i]).get(k) and k not in ('tree', 'tokens')]
                            if not keys:
                                continue     # hash() of tuples with str is process-dependent only if hash seeds differ; both use PYTHONHASHSEED=0
                            ctx.violation('depends_on_history', 'call %d (%s, %r...): result in this process differs from a fresh process in %s' % (
                                i, texts[i][0], texts[i][1][:40], keys), w, index=i, keys=keys)
                            break
            if list(warnings.filters) != f_filters0:
                ctx.violation('warnings_filters_changed', 'warnings.filters differs after a batch: %r' % (warnings.filters[:2],), w)
                f_filters0 = list(warnings.filters)
            # fingerprint at the quiescent point
            if b == 0 or b % spec.get('fp_every', 5) == 0 or b == spec['batches'] - 1:
                if b == 0:
                    # complete first-use memoisation so that later growth of the memo dicts is the only allowed change
                    for v in harness.VERSIONS:
                        one_call(v, 'x = "\\d" + f"{1}"\n')
                il_was = il.on
                fp = fingerprint()
                ctx.count('fingerprints')
                ctx.counters['fingerprint_entries_last'] = len(fp)
                if fp_prev is not None:
                    d = fp_diff(fp_prev, fp)
                    if d:
                        ctx.violation('shared_state_changed', 'shared state differs between two quiescent points at %d paths, e.g. %s: %r -> %r' % (
                            len(d), d[0][0], d[0][1], d[0][2]), {'texts': texts[:4], 'threads': nthreads}, paths=[x[0] for x in d[:10]])
                fp_prev = fp
        for s in list(il.switches)[:3000]:
            ctx.observe('distinct_function_switches', '%s -> %s' % s)
        ctx.count('yields_injected', il.n_yield)
        if il.switches:
            ctx.sample({'threads_switched_between': sorted('%s -> %s' % s for s in il.switches)[:8]})
    finally:
        il.stop()
        import shutil
        shutil.rmtree(croot, ignore_errors=True)


def replay(w, ctx):
    croot, cpaths = cached_files()
    texts = [(t[0], t[1], ('<eval_input>' if len(t) > 2 and t[2] == '<eval_input>' else (cpaths[0] if len(t) > 2 and t[2] else None))) for t in w['texts']]
    for v, t, p in texts:
        if p is not None and p != '<eval_input>' and _norm(one_call(v, t, p)) != _norm(one_call(v, t)):
            ctx.violation('path_option_changes_result', 'parse(code, path=<cached file>) differs from parse(code) on replay', w)
            return
    for rep in range(20):
        conc = run_batch_threads(texts, w.get('threads', 4))
        seq = [one_call(*t) for t in texts]
        for i in range(len(texts)):
            if _norm(conc[i]) != _norm(seq[i]):
                ctx.violation('concurrent_result_differs', 'call %d differs on replay %d' % (i, rep), w)
                return


def shards(tier, seed):
    q = tier == 'quick'
    out = []
    for k in range(16):
        out.append({'kind': 'threads', 'batches': 4 if q else 120, 'sizes': [12, 24] if q else [16, 32, 64], 'maxlen': 1200 if q else 10 ** 9, 'threads': [2, 3, 4] if q else [2, 3, 4, 8], 'p_yield': ([0.0, 0.001, 0.003, 0.01] if q else [0.0, 0.002, 0.01, 0.05])[k % 4], 'fresh_every': 3 if q else 15,
                    'fp_every': 2 if q else 10, 'budget_s': 60 if q else 1500})
    return out


def floors(tier):
    return {'evaluations': 700, 'batches_with_interleaving': 30, 'thread_switches_inside_parso': 2000, 'fingerprints': 30,
            'fresh_process_replays': 15, 'set:distinct_function_switches': 100,
            'non_caching_parses_with_a_cached_path': 60, 'eval_input_calls': 40}
