"""C05 - trees conform to the grammar; invalid input confined to error nodes (DESIGN §2 C05).
Monitor: conformance walk of every non-error node of every tree returned by the real parser
against an NFA built from the grammar *text* by an independent reader (vmon/oracles/ebnf.py)."""
import random

from .. import harness
from ..gen import text as G
from ..oracles import conform
from ..oracles.common import is_virtual, leaves
from . import _text

ID = 'C05'
LEVEL = 'exploration'
RULE = ('cases = hostile mix (garbage, corpus slices with injected fragments, rule triggers) and whole files on cycled '
        'versions; every non-error node of every tree is simulated against the NFA of its rule (independent EBNF reader) '
        'under the six documented conventions (single-child collapse, virtual INDENT/DEDENT in suites, param regrouping, '
        'lambdef_nocond typed lambdef, final NEWLINE may be absent only before the end marker, error nodes/leaves only '
        'where stmt/suite is expected). non-trivial = distinct input whose tree has an error node/leaf or a node type '
        'seen < 20 times so far in the shard')
ASSUMPTIONS = ['the grammar file of the chosen version is the specification; the EBNF reader and NFA are independent of parso.pgen2']
_ck = {}


def checker(v):
    if v not in _ck:
        with open('%s/parso/python/grammar%s.txt' % (harness.REPO, v.replace('.', ''))) as f:
            _ck[v] = conform.Checker(f.read())
    return _ck[v]


def _judge(ctx, v, code, seen_types):
    import parso
    try:
        m = parso.load_grammar(version=v).parse(code)
    except RecursionError:
        ctx.count('recursion_error_skipped')
        return
    except Exception:
        ctx.count('parse_raised_not_judged_here')
        return
    ctx.count('evaluations')
    ck = checker(v)
    ck._memo.clear()
    ck.missing_newline.clear()
    w = {'version': v, 'code': code}
    nt = False
    bad = False
    for n in conform.walk(m):
        if not hasattr(n, 'children'):
            if n.type == 'error_leaf':
                nt = True
            continue
        if n.type == 'error_node':
            nt = True
            ctx.count('error_nodes')
            continue
        ctx.count('nodes_checked')
        seen_types[n.type] = seen_types.get(n.type, 0) + 1
        if seen_types[n.type] < 20:
            nt = True
        ctx.observe('node_types', n.type)
        try:
            r = ck.check_node(n)
        except RecursionError:
            ctx.count('recursion_error_skipped')
            return
        if r and not bad:
            bad = True
            ctx.violation('node_not_in_rule_language', '%s at %s: %s' % (n.type, n.start_pos, r), w, node_type=n.type)
    L = None
    for n in ck.missing_newline:
        ctx.count('simple_stmt_without_newline')
        if L is None:
            L = leaves(m)
            idx = {id(l): k for k, l in enumerate(L)}
        last = n
        while getattr(last, 'children', None):
            last = last.children[-1]
        k = idx[id(last)] + 1
        virt = []
        while k < len(L) and is_virtual(L[k]):
            virt.append(L[k].token_type)
            k += 1
        nl = L[k] if k < len(L) else None
        if nl is None or nl.type != 'endmarker':
            ctx.violation('missing_newline_mid_file', 'simple_stmt ending at %s lacks its NEWLINE but the next real leaf is %r' % (
                last.end_pos, nl), w, next_value=getattr(nl, 'value', None), next_col=nl.start_pos[1] if nl else None,
                stmt_col=n.start_pos[1], virtual_between=virt,
                next_prefix_has_newline=bool(nl is not None and ('\n' in nl.prefix or '\r' in nl.prefix)))
    # the tree a client holds must stay an instance of the grammar while it is being read: every public accessor (with its option
    # variants) is called on every third tree and the tree compared with what it was
    if not bad and ctx.counters['evaluations'] % 3 == 0 and len(code) < 20000:
        from ..oracles import readonly
        from ..oracles.common import sig_diff, tree_sig
        try:
            before = tree_sig(m)
            ctx.count('read_only_calls', readonly.exercise(m))
            ctx.count('trees_read_through_the_whole_api')
            d = sig_diff(before, tree_sig(m))
            if d or m.get_code() != code:
                ctx.violation('read_only_api_modified_tree', 'after calling the read-only accessors the tree differs: %s' % (d or 'get_code()',), w)
        except RecursionError:
            ctx.count('recursion_error_skipped')
    if nt:
        ctx.nontriv(v + '\0' + code)
    if nt and len(code) < 60:
        ctx.sample({'version': v, 'code': code, 'tree': m.dump(indent=None)[:240]})


def run_shard(spec, ctx):
    seen = {}
    it = _text.whole_files(spec, ctx) if spec['kind'] == 'files' else _text.cases(spec, ctx)
    for v, code, origin in it:
        _judge(ctx, v, code, seen)


def replay(w, ctx):
    _judge(ctx, w['version'], w['code'], {})


def shards(tier, seed):
    s = _text.shards(tier, seed, 24000, 500000)
    nf = 16
    s += [{'kind': 'files', 'shard': i, 'nshards': nf, 'file_stride': 16 if tier == 'quick' else 1,
           'budget_s': 60 if tier == 'quick' else 1500} for i in range(nf)]
    return s


def floors(tier):
    return {'evaluations': 3000, 'nodes_checked': 100000, 'error_nodes': 2000, 'trees_read_through_the_whole_api': 3000, 'set:node_types': 70}
