"""Common shape of the text-input drivers: shards, case iteration, replay."""
import os
import random

from .. import harness
from ..gen import text as G

VERSIONS = harness.VERSIONS


def shards(tier, seed, quick_n, thorough_n, nshards=16, budget_quick=60, budget_thorough=600, **extra):
    n = int((quick_n if tier == 'quick' else thorough_n) * float(os.environ.get('VERIF_SCALE', '1')))
    out = []
    for i in range(nshards):
        d = {'kind': 'hostile', 'n': n // nshards,
             'budget_s': budget_quick if tier == 'quick' else budget_thorough}
        d.update(extra)
        out.append(d)
    return out


def cases(spec, ctx, gen=None, versions=None):
    """yields (version, code, origin) until n cases or the shard's time budget"""
    rng = random.Random(spec['seed'])
    files = G.corpus_files()
    versions = versions or VERSIONS
    gen = gen or G.hostile
    for i in range(spec['n']):
        if ctx.out_of_time():
            ctx.count('stopped_by_time_budget')
            break
        v = versions[(i + spec.get('shard', 0)) % len(versions)] if spec.get('cycle_versions', True) else rng.choice(versions)
        yield v, gen(rng, files), 'hostile'


def whole_files(spec, ctx, versions=None):
    """whole real files, strided over shards"""
    versions = versions or VERSIONS
    files = G.corpus_files()
    step = spec.get('file_stride', 1)
    mine = files[spec['shard']::spec['nshards']][::step]
    for i, f in enumerate(mine):
        if ctx.out_of_time():
            ctx.count('stopped_by_time_budget')
            break
        t = G.file_text(f)
        if t is None:
            continue
        yield versions[(i + spec['shard']) % len(versions)], t, f


def run_repo_suite(pid, ctx, timeout=900):
    """thorough-tier workload: the repository's own 1987 tests with this property's contracts recording"""
    import json
    import subprocess
    import tempfile
    out = tempfile.mktemp(prefix='vmon-suite-', suffix='.json')
    env = dict(os.environ, VMON_SUITE_PROP=pid, VMON_SUITE_OUT=out, PYTHONPATH=harness.VERIF + os.pathsep + harness.DEPS,
               PYTHONDONTWRITEBYTECODE='1')
    try:
        p = subprocess.run([harness.PY, '-m', 'pytest', '-q', '-p', 'no:cacheprovider', '-p', 'vmon.pytest_plugin', '-x', '--timeout=900'],
                           cwd=harness.REPO, env=env, stdout=subprocess.PIPE, stderr=subprocess.STDOUT, timeout=timeout)
    except subprocess.TimeoutExpired:
        ctx.count('suite_timeout')
        return
    try:
        with open(out) as f:
            d = json.load(f)
        os.remove(out)
    except Exception:
        ctx.count('suite_result_missing')
        return
    for k, v in d['counters'].items():
        ctx.counters['suite:' + k] += v
    ctx.counters['evaluations'] += d['counters'].get('evaluations', 0)
    for h in d['nontrivial']:
        ctx.nontrivial.add(h)
    for v in d['violations']:
        v['detail'] = dict(v.get('detail') or {}, under_repo_suite=True)
        ctx.violations.append(v)
        ctx._vk[v['kind']] += 1
    for k, n in d['known'].items():
        ctx.known[k] += n
    for k, v in d['known_ex'].items():
        ctx.known_ex.setdefault(k, v)
    ctx.count('repo_suite_runs')
    if p.returncode != 0:
        ctx.count('repo_suite_nonzero_exit')
