"""C10 - tokenization of valid programs matches CPython's own tokenizer (DESIGN §2 C10).
Reference-model monitor: persistent CPython V servers run tokenize + compile; parso's tokenizer
for V runs on the same text; normalised significant-token sequences are compared."""
import random
import re

from .. import harness
from ..gen import text as G
from ..gen import valid
from ..oracles.cpyref import RefServer

ID = 'C10'
LEVEL = 'exploration'
RULE = ('programs = the standard library of each reference interpreter 3.6-3.13 (quick: every 12th file; thorough: all), '
        'plus generated programs (semantic snippets, top-level blocks of real files, token-level mutations, grammar '
        'derivations) that CPython V tokenizes AND compiles; grammar 3.14 is judged by the 3.13 interpreter. Compared: '
        '(type, text, start) of every significant token after normalisation (COMMENT/NL/ENCODING dropped, implicit EOF '
        'NEWLINE dropped, ASYNC/AWAIT->NAME, an f-string collapsed to one STRING span, positions only on lines that are '
        'ASCII up to the token); comments/NL CPython reports must sit in the prefix of the following parso token. '
        'non-trivial = distinct program with a number using _/exponent/j, a string prefix, a continuation line, tab/form '
        'feed indentation, a multi-char operator or an f-string')
ASSUMPTIONS = ['"valid program" = CPython V tokenizes and compiles it (the pure-Python tokenize module alone accepts non-programs)',
               'CPython tokenize is authoritative for columns only on ASCII line prefixes']
SIG_SKIP = ('COMMENT', 'NL', 'ENCODING')
_prev = {}
_WS_BACKSLASH_LINE = re.compile(r'^[ \t\f]+\\\r?\n', re.M)


def _span(lines, st, en):
    if lines is None:
        return None
    try:
        if st[0] == en[0]:
            return lines[st[0] - 1][st[1]:en[1]]
        return lines[st[0] - 1][st[1]:] + ''.join(lines[st[0]:en[0] - 1]) + lines[en[0] - 1][:en[1]]
    except IndexError:
        return None


def norm_ref(toks, lines=None):
    """-> (significant tokens, trivia) ; trivia[i] = comments/NL seen before significant token i.  An f-string counts as one string;
    its text is the token's own (<= 3.11) or the source between the start of FSTRING_START and the end of FSTRING_END (3.12+)"""
    out, trivia, pend = [], [], []
    fdepth = 0
    fstart = None
    for typ, s, st, en in toks:
        if typ in SIG_SKIP:
            if fdepth == 0 and typ != 'ENCODING' and s != '':
                pend.append((typ, s))
            continue
        if typ == 'FSTRING_START':
            if fdepth == 0:
                fstart = tuple(st)
            fdepth += 1
            continue
        if typ == 'FSTRING_END':
            fdepth -= 1
            if fdepth == 0:
                out.append(('STRING', _span(lines, fstart, tuple(en)), fstart))
                trivia.append(pend)
                pend = []
            continue
        if fdepth:
            continue
        if typ == 'NEWLINE' and s == '':
            continue
        if typ in ('INDENT', 'DEDENT', 'ENDMARKER'):
            out.append((typ, None, None))
        elif typ == 'NEWLINE':
            out.append((typ, None, tuple(st)))
        else:
            if typ in ('ASYNC', 'AWAIT'):
                typ = 'NAME'
            out.append((typ, s, tuple(st)))
        trivia.append(pend)
        pend = []
    return out, trivia


def norm_parso(toks):
    out, prefixes = [], []
    fdepth = 0
    fstart = None
    fprefix = ''
    pieces = []
    for t in toks:
        n = t.type.name
        if n == 'FSTRING_START':
            if fdepth == 0:
                fstart = t.start_pos
                fprefix = t.prefix
                pieces = [t.string]
            else:
                pieces.append(t.prefix + t.string)
            fdepth += 1
            continue
        if n == 'FSTRING_END':
            fdepth -= 1
            pieces.append(t.prefix + t.string)
            if fdepth == 0:
                # the text of the f-string as the pieces spell it (prefix + string of every token between start and end)
                out.append(('STRING', ''.join(pieces), fstart))
                prefixes.append(fprefix)
            continue
        if fdepth:
            pieces.append(t.prefix + t.string)
            continue
        if n in ('INDENT', 'DEDENT', 'ENDMARKER'):
            out.append((n, None, None))
        elif n == 'NEWLINE':
            out.append((n, None, t.start_pos))
        else:
            out.append((n, t.string, t.start_pos))
        prefixes.append(t.prefix)
    return out, prefixes


def pep701_first_index(toks):
    """line of the first f-string that uses PEP 701-only syntax (3.12+ reference tokens): inside a
    replacement field a string/f-string with the enclosing quote character, a comment, a backslash,
    or a line break inside a single-quoted f-string.  None if there is none."""
    stack = []
    for typ, s, st, en in toks:
        if typ == 'FSTRING_START':
            q = s.lstrip('rRfFbBuU')
            if stack and q[0] == stack[-1][0][0]:
                return stack[0][1]
            stack.append((q, st[0]))
        elif typ == 'FSTRING_END':
            if stack:
                stack.pop()
        elif stack:
            q = stack[-1][0]
            if typ == 'COMMENT' or (typ == 'NL' and len(q) == 1):
                return stack[0][1]
            if typ == 'STRING' and s.lstrip('rRbBuU')[:1] == q[0]:
                return stack[0][1]
            if typ != 'FSTRING_MIDDLE' and '\\' in s:
                return stack[0][1]
            if typ == 'OP' and len(q) == 1 and st[0] != stack[-1][1]:
                return stack[0][1]
    return None


def fstring_backslash_brace_first_line(toks, lines):
    """line of the first f-string whose source text contains a backslash directly before a brace (reference tokens)"""
    def span_text(st, en):
        if st[0] == en[0]:
            return lines[st[0] - 1][st[1]:en[1]]
        return lines[st[0] - 1][st[1]:] + ''.join(lines[st[0]:en[0] - 1]) + lines[en[0] - 1][:en[1]]
    start = None
    depth = 0
    for typ, s, st, en in toks:
        if typ == 'STRING':
            m = re.match(r'[A-Za-z]*', s)
            if 'f' in m.group(0).lower() and ('\\{' in s or '\\}' in s):
                return st[0]
        elif typ == 'FSTRING_START':
            if depth == 0:
                start = st
            depth += 1
        elif typ == 'FSTRING_END':
            depth -= 1
            if depth == 0 and start is not None:
                try:
                    t = span_text(start, en)
                except Exception:
                    t = ''
                if '\\{' in t or '\\}' in t:
                    return start[0]
    return None


def _nontrivial(text):
    import re
    return bool(re.search(r'\d_\d|\de[+-]?\d|\dj\b|\b[rbufRBUF]{1,2}["\']|\\\r?\n|^\t|\x0c|\*\*|//|->|:=|<<|>>|[-+*/%&|^@]=', text, re.M))


def judge(ctx, v, text, ref, origin):
    """ref = server answer with 'toks' and 'compiles'"""
    from parso.python.tokenize import tokenize
    from parso.utils import parse_version_string
    w = {'version': v, 'code': text, 'origin': origin}
    if ref.get('toks') is None or not ref.get('compiles'):
        ctx.count('not_a_valid_program_skipped')
        return
    if any(t[0] == 'ERRORTOKEN' for t in ref['toks']):
        ctx.count('reference_has_errortoken_skipped')
        return
    if tuple(int(z) for z in v.split('.')) < (3, 12) and _WS_BACKSLASH_LINE.search(text):
        # <= 3.11 the tokenize module is pure Python and opens an INDENT for a line that holds only
        # whitespace and a continuation backslash; the compiler's tokenizer (which accepted the program) does not
        ctx.count('whitespace_backslash_line_reference_not_authoritative_skipped')
        return
    if '\r' in text.replace('\r\n', ''):
        # the tokenize module reads lines with readline(), which does not break at a lone \r (the compiler does)
        ctx.count('lone_cr_reference_not_authoritative_skipped')
        return
    ctx.count('evaluations')
    ctx.count('evaluations:' + v)
    prev = _prev.get('text')
    _prev['text'] = text
    if prev is not None and (len(text) + len(prev)) % 10 == 0:
        # what was tokenized before -- and abandoned half-way -- must not matter
        ctx.count('prior_abandoned_streams')
        try:
            it = tokenize(prev, version_info=parse_version_string(v))
            for _ in range(len(prev) % 9 + 1):
                next(it)
            del it
        except Exception:
            pass
    try:
        pt = list(tokenize(text, version_info=parse_version_string(v)))
    except Exception as e:
        info = harness.exc_info(e)
        ctx.violation('tokenizer_raised', '%s in %s' % (info['type'], info['func']), w, exc=info)
        return
    lines = G.split_keep(text)
    a, trivia = norm_ref(ref['toks'], lines)
    b, prefixes = norm_parso(pt)
    ctx.count('tokens_compared', len(a))

    def detail(i):
        """mechanism facts computed from the reference tokens and the text alone"""
        line = a[i][2][0] if i < len(a) and a[i][2] else None
        if line is None:
            # INDENT/DEDENT carry no position here: they belong to the next token that has one
            for j in list(range(min(i, len(a) - 1), len(a))) + list(range(min(i, len(a) - 1), -1, -1)):
                if a[j][2]:
                    line = a[j][2][0]
                    break
        ff = [k + 1 for k, l in enumerate(lines) if '\x0c' in l[:len(l) - len(l.lstrip(' \t\x0c'))]
              and l.strip(' \t\x0c\r\n') and not l.lstrip(' \t\x0c').startswith('#')]
        p701 = pep701_first_index(ref['toks'])
        return {'index': i, 'line': line, 'first_formfeed_indent_line': ff[0] if ff else None,
                'fstring_backslash_brace_first_line': fstring_backslash_brace_first_line(ref['toks'], lines),
                'pep701_first_line': p701, 'version_ge_312': tuple(int(z) for z in v.split('.')) >= (3, 12),
                'ref_token': list(a[i]) if i < len(a) else None, 'parso_token': list(b[i]) if i < len(b) else None}
    pend = []
    for i, (x, y) in enumerate(zip(a, b)):
        bad = None
        if x[0] != y[0]:
            bad = 'type'
        elif x[1] is not None and y[1] is not None and x[1] != y[1]:
            bad = 'text'
        elif x[2] is not None and y[2] is not None and tuple(x[2]) != tuple(y[2]):
            ln = x[2][0]
            lt = lines[ln - 1] if ln - 1 < len(lines) else ''
            if x[2][0] != y[2][0] or lt[:max(x[2][1], y[2][1])].isascii():
                bad = 'position'
            else:
                ctx.count('columns_on_non_ascii_lines_not_judged')
        if bad:
            ctx.violation('token_' + bad, 'token %d: CPython %s %r at %s, parso %s %r at %s' % (i, x[0], x[1], x[2], y[0], y[1], y[2]), w,
                          **detail(i))
            return
        # comments / NL reported by CPython sit in the prefix of the following *real* parso token
        pend += trivia[i]
        if x[0] in ('INDENT', 'DEDENT'):
            continue
        for typ, s_ in pend:
            if typ == 'COMMENT' and s_ not in prefixes[i]:
                ctx.violation('comment_not_in_prefix', 'comment %r reported by CPython is not in the prefix %r of parso token %d' % (s_, prefixes[i], i), w,
                              **detail(i))
                return
        nls = sum(1 for typ, s_ in pend if typ == 'NL')
        if nls and prefixes[i].count('\n') + prefixes[i].replace('\r\n', '').count('\r') < nls:
            ctx.violation('nl_not_in_prefix', '%d NL tokens before token %d, prefix %r' % (nls, i, prefixes[i]), w, **detail(i))
            return
        if pend:
            ctx.count('trivia_found_in_prefixes', len(pend))
        pend = []
    if len(a) != len(b):
        ctx.violation('token_count', 'CPython has %d significant tokens, parso %d; tails %r / %r' % (len(a), len(b), a[-3:], b[-3:]), w,
                      **detail(min(len(a), len(b))))
        return
    if _nontrivial(text):
        ctx.nontriv(v + '\0' + text)
    if len(text) < 80:
        ctx.sample({'version': v, 'code': text, 'significant_tokens': len(a)})


def _deriver(v):
    from . import c06
    from parso.python.token import PythonTokenTypes as T
    with open('%s/parso/python/grammar%s.txt' % (harness.REPO, v.replace('.', ''))) as f:
        gtext = f.read()
    state = {}

    def derive(rng):
        if 'G' not in state:
            state['G'] = c06.Gen(gtext, rng)
        Gn = state['G']
        Gn.rng = rng
        d = Gn.derive('file_input', rng.choice([4, 10, 25, 60]))
        real = [c06.realize(l, rng, T) for l in c06.flat(d, [], set())]
        return c06.render(real, rng, T)
    return derive


def run_shard(spec, ctx):
    v = spec['version']
    srv = RefServer(v)
    if not srv.available():
        ctx.count('reference_interpreter_missing')
        return
    rng = random.Random(spec['seed'])
    try:
        if spec['kind'] == 'stdlib':
            files = G.stdlib_files(v)[spec['offset']::spec['stride']]
            for f in files:
                if ctx.out_of_time():
                    ctx.count('stopped_by_time_budget')
                    break
                r = srv.ask({'op': 'file', 'path': f, 'then': 'both'}, timeout=120)
                if r is None or r.get('text') is None or 'fail' in r:
                    ctx.count('reference_could_not_read_skipped')
                    continue
                text = r['text'][1:] if r['text'].startswith('﻿') else r['text']
                ctx.count('stdlib_files')
                judge(ctx, v, text, r, f)
        elif spec['kind'] == 'snippets_all':
            for text in valid.VALID_SNIPPETS:
                r = srv.ask({'op': 'both', 'text': text})
                if r is None or 'fail' in r:
                    continue
                ctx.count('snippets_all')
                judge(ctx, v, text, r, 'snippet')
        else:
            files = G.stdlib_files(v)[::7] + G.repo_files()
            gen = valid.candidates(rng, files, _deriver(v))
            for i in range(spec['n']):
                if ctx.out_of_time():
                    ctx.count('stopped_by_time_budget')
                    break
                origin, text = next(gen)
                r = srv.ask({'op': 'both', 'text': text})
                if r is None or 'fail' in r:
                    ctx.count('reference_failed_skipped')
                    continue
                ctx.count('candidates')
                if r.get('compiles'):
                    ctx.count('valid:' + origin)
                judge(ctx, v, text, r, origin)
    finally:
        srv.close()


def replay(w, ctx):
    srv = RefServer(w['version'])
    try:
        r = srv.ask({'op': 'both', 'text': w['code']})
        if r is not None:
            judge(ctx, w['version'], w['code'], r, 'replay')
    finally:
        srv.close()


def shards(tier, seed):
    out = []
    for v in harness.VERSIONS:
        if tier == 'quick':
            out.append({'kind': 'stdlib', 'version': v, 'offset': seed % 12, 'stride': 12, 'budget_s': 100})
            out.append({'kind': 'generated', 'version': v, 'n': 2500, 'budget_s': 60})
            out.append({'kind': 'snippets_all', 'version': v, 'budget_s': 60})
        else:
            for k in range(4):
                out.append({'kind': 'stdlib', 'version': v, 'offset': k, 'stride': 4, 'budget_s': 3000})
            for k in range(2):
                out.append({'kind': 'generated', 'version': v, 'n': 60000, 'budget_s': 1500})
    return out


def floors(tier):
    f = {'evaluations': 3000, 'stdlib_files': 500, 'tokens_compared': 1000000}
    for v in harness.VERSIONS:
        f['evaluations:' + v] = 200
    return f
