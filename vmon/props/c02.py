"""C02 - error recovery is total (DESIGN §2 C02).
Monitors: exception observer + shape contract on Grammar.parse; logical step budget
(sys.monitoring LINE events inside tokenizer/parser loops) instead of wall-clock."""
import os
import random
import sys

from .. import contracts, harness
from ..gen import text as G
from ..oracles import treechecks
from ..oracles.common import nesting_estimate, walk
from . import _text

ID = 'C02'
LEVEL = 'exploration'
RULE = ('cases = hostile mix (12% preceded by an abandoned strict parse / unexhausted tokenizer / error listing of the previous text / strict eval_input parse / parse aborted by the recursion limit) + whole files + a nesting ladder (13 nesting constructs x depths up to 100) on cycled '
        'versions; judged by an exception observer and a shape contract on Grammar.parse (parentless file_input, last '
        'child the only end marker, no empty interior node, str value/prefix) and a logical step budget on '
        'sys.monitoring LINE events in parso.python.tokenize / parso.parser / parso.python.parser '
        '(events <= 4000*(len+lines+10)), and a CPU-time budget (20 s per input, measured on a killable child process; typical cost is milliseconds). non-trivial = distinct input whose tree contains an error node or leaf')
ASSUMPTIONS = ['nesting <= 100 by construction of the generators; a RecursionError is excused only when the '
               'independent nesting estimator exceeds 100', 'default recursion limit, call made from a shallow stack']

_state = {'events': 0}
TOOL = 3


def _post(result, args, kwargs, old):
    ctx = _state.get('ctx')
    if ctx is None or not kwargs.get('error_recovery', True):
        return
    code = args[1] if len(args) > 1 else kwargs.get('code')
    if not isinstance(code, str):
        return
    ctx.count('evaluations')
    ctx.count('contract_evals:Grammar.parse')
    v = _ver(args)
    for kind, msg in treechecks.check_shape(result):
        ctx.violation(kind, msg, {'version': v, 'code': code})
    for n in walk(result):
        if n.type in ('error_node', 'error_leaf'):
            ctx.nontriv(v + '\0' + code)
            ctx.count('trees_with_errors')
            break
    if len(code) < 100:
        ctx.sample({'version': v, 'code': code})


def _on_raise(exc, args, kwargs):
    ctx = _state.get('ctx')
    if ctx is None or not kwargs.get('error_recovery', True) or kwargs.get('start_symbol') not in (None, 'file_input'):
        return
    code = args[1] if len(args) > 1 else kwargs.get('code')
    if not isinstance(code, str) or kwargs.get('path') is not None or kwargs.get('file_io') is not None:
        return
    v = _ver(args)
    ctx.count('evaluations')
    if isinstance(exc, RecursionError):
        est = nesting_estimate(code)
        if est > 100:
            ctx.count('recursion_error_excused_depth_gt_100')
            return
        ctx.violation('recursion_error', 'RecursionError although estimated nesting is %d' % est,
                      {'version': v, 'code': code}, exc=harness.exc_info(exc))
        return
    info = harness.exc_info(exc)
    if not info.get('in_parso'):
        ctx.count('raised_before_entering_parso_not_judged')     # e.g. TypeError for a wrong keyword argument
        return
    ctx.violation('parse_raised', '%s: %s in %s: %s' % (info['type'], info['text'], info['func'], info['line']),
                  {'version': v, 'code': code}, exc=info)


def _install(ctx):
    if _state.get('installed'):
        _state['ctx'] = ctx
        return
    _state['installed'] = True
    import parso.grammar
    _state['ctx'] = ctx
    contracts.install(parso.grammar.Grammar, 'parse', _post, on_raise=_on_raise)


def _line_monitor_on():
    """count LINE events in the tokenizer and parser engine (logical steps)"""
    import parso.parser
    import parso.python.parser
    import parso.python.tokenize
    mon = sys.monitoring
    files = {parso.parser.__file__, parso.python.parser.__file__, parso.python.tokenize.__file__}
    mon.use_tool_id(TOOL, 'vmon-steps')

    def on_line(code, line):
        if code.co_filename in files:
            _state['events'] += 1
            return None
        return mon.DISABLE
    mon.register_callback(TOOL, mon.events.LINE, on_line)
    mon.set_events(TOOL, mon.events.LINE)


CONSTRUCTS = [
    lambda d: '(' * d + 'x' + ')' * d + '\n',
    lambda d: '[' * d + ']' * d + '\n',
    lambda d: '{' * d + '1' + '}' * d + '\n',
    lambda d: 'x = ' + 'f(' * d + ')' * d + '\n',
    lambda d: ''.join(' ' * i + 'if x:\n' for i in range(d)) + ' ' * d + 'pass\n',
    lambda d: ''.join(' ' * i + 'def f():\n' for i in range(d)) + ' ' * d + 'pass\n',
    lambda d: ''.join(' ' * i + 'class A:\n' for i in range(d)) + ' ' * d + 'pass\n',
    lambda d: 'not ' * d + 'x\n',
    lambda d: '-' * d + 'x\n',
    lambda d: 'lambda: ' * d + 'x\n',
    lambda d: 'x' + ' if a else y' * d + '\n',
    lambda d: 'x' + ' ** y' * d + '\n',
    lambda d: '[x' + ' for x in y' * d + ']\n',
    lambda d: '(' * d + '\n',
    lambda d: ''.join(' ' * i + 'try:\n' for i in range(d)) + ' ' * d + '(\n',
    lambda d: ''.join(' ' * i + 'while x:\n' for i in range(d)) + 'else\n',
    lambda d: 'f"' + '{x:' * min(d, 50) + '}' * min(d, 50) + '"\n',
    lambda d: 'a' + '[b' * d + ']' * (d // 2) + '\n',
]


_CHILD = r"""
import sys, json
sys.path.insert(0, sys.argv[1])
import parso
for line in sys.stdin:
    v, code = json.loads(line)
    try:
        parso.load_grammar(version=v).parse(code)
    except RecursionError:
        pass
    except Exception:
        pass
    sys.stdout.write('k\n'); sys.stdout.flush()
"""
CPU_BUDGET_S = 20


def _cpu_seconds(pid):
    try:
        with open('/proc/%d/stat' % pid) as f:
            parts = f.read().rsplit(')', 1)[1].split()
        return (int(parts[11]) + int(parts[12])) / float(os.sysconf('SC_CLK_TCK'))
    except Exception:
        return None


def shard_termination(spec, ctx):
    """bounded progress, judged on the *CPU time* a killable child spends on one input (never on wall-clock): a parse
    of a few hundred characters normally costs milliseconds; more than CPU_BUDGET_S seconds means no progress -- this also
    sees a spin inside C code (e.g. catastrophic regex backtracking), which LINE events and signals cannot."""
    import json
    import select
    import subprocess
    rng = random.Random(spec['seed'])
    files = G.corpus_files()

    def start():
        return subprocess.Popen([harness.PY, '-c', _CHILD, harness.REPO], stdin=subprocess.PIPE, stdout=subprocess.PIPE,
                                stderr=subprocess.DEVNULL, env=dict(os.environ, PYTHONDONTWRITEBYTECODE='1'))
    child = start()
    try:
        for i in range(spec['n']):
            if ctx.out_of_time():
                ctx.count('stopped_by_time_budget')
                break
            v = harness.VERSIONS[i % 9]
            code = G.mixed(rng) if i % 3 else G.hostile(rng, files)
            c0 = _cpu_seconds(child.pid) or 0.0
            child.stdin.write((json.dumps([v, code]) + '\n').encode())
            child.stdin.flush()
            ctx.count('evaluations')
            ctx.count('termination_cases')
            while True:
                r, _, _ = select.select([child.stdout], [], [], 2.0)
                if r:
                    if not child.stdout.readline():
                        ctx.count('termination_child_died')
                        child = start()
                    break
                used = (_cpu_seconds(child.pid) or 0.0) - c0
                if child.poll() is not None:
                    ctx.count('termination_child_died')
                    child = start()
                    break
                if used > CPU_BUDGET_S:
                    child.kill()
                    child.wait()
                    ctx.violation('cpu_budget', 'parsing %d characters used more than %d s of CPU time without returning' % (len(code), CPU_BUDGET_S),
                                  {'version': v, 'code': code})
                    child = start()
                    break
    finally:
        try:
            child.kill()
        except Exception:
            pass


def run_shard(spec, ctx):
    import parso
    if spec['kind'] == 'termination':
        return shard_termination(spec, ctx)
    _install(ctx)
    steps = spec.get('steps')
    if steps:
        _line_monitor_on()
    if spec['kind'] == 'suite':
        return _text.run_repo_suite(ID, ctx)
    if spec['kind'] == 'ladder':
        depths = spec['depths']
        it = ((harness.VERSIONS[(i + d) % 9], c(d), 'ladder') for d in depths for i, c in enumerate(CONSTRUCTS))
    elif spec['kind'] == 'files':
        it = _text.whole_files(spec, ctx)
    else:
        it = _text.cases(spec, ctx)
    hrng = random.Random(spec.get('seed', 0) + 99)
    prev = 'if x:\n    y = )\n'
    for v, code, origin in it:
        _state['version'] = v
        if origin == 'ladder':
            ctx.count('ladder_cases')
        g = parso.load_grammar(version=v)
        _state['events'] = 0
        if origin == 'hostile' and hrng.random() < .12:
            # what was done before must not matter: an abandoned strict parse (raises mid-file), a tokenizer
            # generator that is never exhausted, an error listing
            ctx.count('prior_abandoned_calls')
            try:
                k = hrng.random()
                if k < .5:
                    g.parse(prev, error_recovery=False)
                elif k < .8:
                    it2 = g._tokenize(prev)
                    for _ in range(hrng.randint(0, 6)):
                        next(it2)
                    del it2
                elif k < .86:
                    # a documented strict call with another start rule on the shared grammar object
                    ctx.count('prior_calls_with_another_start_symbol')
                    g.parse(hrng.choice(['1 + 1', 'f(x)', 'lambda: 0', prev.split('\n')[0]]), error_recovery=False, start_symbol='eval_input')
                elif k < .93:
                    # a parse that CPython's recursion limit aborts half-way, with an unexpected indent open (outside the property
                    # itself, but what it leaves behind must not reach the next call)
                    ctx.count('prior_calls_aborted_by_the_recursion_limit')
                    g.parse(hrng.choice([' ' + '-' * 3000 + '1 1', 'if x:\n        y\n   ' + '(' * 3000, '  ' + 'not ' * 3000 + 'x\n']))
                else:
                    list(g.iter_errors(g.parse(prev)))
            except (Exception, RecursionError):
                pass
        prev = code
        _state['events'] = 0       # logical steps of the judged parse only
        try:
            g.parse(code)
        except BaseException as e:
            if isinstance(e, (KeyboardInterrupt, SystemExit)):
                raise
        if steps:
            ctx.count('step_budget_checks')
            budget = 4000 * (len(code) + code.count('\n') + code.count('\r') + 10)
            ctx.counters['max_events_per_char_x100'] = max(ctx.counters['max_events_per_char_x100'],
                                                           100 * _state['events'] // (len(code) + 10))
            if _state['events'] > budget:
                ctx.violation('step_budget', '%d line events for %d characters' % (_state['events'], len(code)),
                              {'version': v, 'code': code})


def replay(w, ctx):
    import parso
    _install(ctx)
    _state['version'] = w['version']
    try:
        parso.load_grammar(version=w['version']).parse(w['code'])
    except Exception:
        pass


def shards(tier, seed):
    s = _text.shards(tier, seed, 96000, 1200000)
    nf = 8
    s += [{'kind': 'files', 'shard': i, 'nshards': nf, 'file_stride': 12 if tier == 'quick' else 1,
           'budget_s': 60 if tier == 'quick' else 900} for i in range(nf)]
    s += [{'kind': 'hostile', 'n': 1500 if tier == 'quick' else 40000, 'steps': True,
           'budget_s': 60 if tier == 'quick' else 900} for i in range(4 if tier == 'quick' else 8)]
    s += [{'kind': 'termination', 'n': 12000 if tier == 'quick' else 300000, 'budget_s': 60 if tier == 'quick' else 1200} for _ in range(2)]
    ladder = [1, 2, 3, 5, 8, 13, 21, 34, 55, 80, 90, 95] if tier == 'quick' else list(range(1, 96))
    s += [{'kind': 'ladder', 'depths': ladder[i::4]} for i in range(4)]
    if tier == 'thorough':
        s.append({'kind': 'suite'})
    return s


def floors(tier):
    return {'evaluations': 5000, 'trees_with_errors': 1000, 'step_budget_checks': 500, 'ladder_cases': 100, 'termination_cases': 3000}


def _ver(args):
    gv = getattr(args[0], 'version_info', None) if args else None
    return '%d.%d' % (gv.major, gv.minor) if gv is not None else _state.get('version')


def install_for_suite(ctx):
    _install(ctx)
