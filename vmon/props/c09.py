"""C09 - tokenizer lossless / position-true / balanced; prefixes pure (DESIGN §2 C09).
Monitors: online checker wrapped around the real tokenize_lines generator (sees each token as it
is produced), recording contract on the real split_prefix."""
import random
import re

from .. import contracts, harness
from ..gen import text as G
from ..oracles.common import BOM, adv, is_virtual, leaves
from . import _text

ID = 'C09'
LEVEL = 'exploration'
RULE = ('cases = hostile text (f-string garbage with NEL/NBSP/U+2028/FS/GS/RS/VT in and around f-strings, form feeds '
        'in comments, BOM + further lines, token soup, corpus slices) on the nine token collections, through '
        'tokenize() and through Grammar.parse (+ leaf._split_prefix() of every leaf); also tokenize_lines with the '
        'non-default start_pos/indents arguments. Online checker per token: prefix+string tiles the input, true '
        'start position, prefix purity; at end: one ENDMARKER last, INDENT/DEDENT balanced. split_prefix contract: '
        'never raises, parts tile the prefix, part positions true, parts end at the leaf. non-trivial = distinct '
        'input whose stream has ERRORTOKEN/ERROR_DEDENT/an f-string token or a prefix with >= 2 part types')
ASSUMPTIONS = ['pure prefix = BOM? ([ \\t\\f]+ | #[^\\r\\n]* | \\\\ NEWLINE | NEWLINE)* with the BOM only at offset 0',
               'virtual tokens (INDENT/DEDENT/ERROR_DEDENT) hold no text and must not lie before the text consumed so far']
PURE = re.compile(r'(?:[ \t\f]+|#[^\r\n]*|\\(?:\r\n|\r|\n)|\r\n|\r|\n)*\Z')
_state = {}


class StreamChecker:
    def __init__(self, args, kwargs):
        self.ctx = _state.get('ctx')
        lines = args[0] if args else kwargs.get('lines')
        self.lines = lines = list(lines) if not isinstance(lines, list) else lines
        self.text = ''.join(lines)
        self.default = kwargs.get('indents') is None and kwargs.get('start_pos', (1, 0)) == (1, 0) \
            and kwargs.get('is_first_token', True)
        self.first_token = kwargs.get('is_first_token', True)
        self.pos = kwargs.get('start_pos', (1, 0))
        self.init_indents = len(kwargs.get('indents') or [0])
        self.off = 0
        self.n = 0
        self.indent = self.dedent = self.endm = 0
        self.last_type = None
        self.bad = False
        self.flags = set()
        self.w = {'version': '%d.%d' % tuple(kwargs.get('version_info', (0, 0))[:2]), 'code': self.text,
                  'args': {'start_pos': list(self.pos), 'indents': kwargs.get('indents') and list(kwargs['indents']),
                           'is_first_token': self.first_token}}

    def v(self, kind, msg):
        if self.ctx is not None and not self.bad:
            self.ctx.violation(kind, msg, self.w)
        self.bad = True

    def item(self, t):
        if self.bad:
            return
        self.n += 1
        name = t.type.name
        self.last_type = name
        p, s = t.prefix, t.string
        if not isinstance(p, str) or not isinstance(s, str):
            return self.v('token_not_str', repr(t))
        if self.text[self.off:self.off + len(p) + len(s)] != p + s:
            return self.v('stream_tiling', 'token %d %r/%r does not continue the input at offset %d: %r' % (
                self.n, p, s, self.off, self.text[self.off:self.off + len(p) + len(s) + 5]))
        pp = p
        if pp.startswith(BOM) and self.off == 0 and self.first_token:
            pp = pp[1:]
        if not PURE.match(pp):
            self.v('impure_prefix', 'prefix %r of %s token %r contains text that is not whitespace/comment/continuation' % (p, name, s))
            return
        if len(p) > 1 and ('#' in p or '\\' in p) and ('\n' in p or '\r' in p):
            self.flags.add('rich_prefix')
        self.pos = adv(self.pos, pp)
        self.off += len(p)
        if name in ('INDENT', 'DEDENT', 'ERROR_DEDENT'):
            if s != '':
                return self.v('virtual_with_text', repr(t))
            if t.start_pos < self.pos:
                return self.v('virtual_pos', '%s token at %s before the text position %s' % (name, t.start_pos, self.pos))
            self.indent += name == 'INDENT'
            self.dedent += name == 'DEDENT'
            if name == 'ERROR_DEDENT':
                self.flags.add('ERROR_DEDENT')
            return
        if t.start_pos != self.pos:
            return self.v('token_start_pos', '%s token %r: start_pos %s, true position %s' % (name, s, t.start_pos, self.pos))
        self.pos = adv(self.pos, s)
        self.off += len(s)
        if name == 'ENDMARKER':
            self.endm += 1
        elif name == 'ERRORTOKEN' or name.startswith('FSTRING'):
            self.flags.add(name)

    def raised(self, e):
        info = harness.exc_info(e)
        self.v('tokenizer_raised', '%s: %s in %s: %s' % (info['type'], info['text'], info['func'], info['line']))

    def done(self):
        ctx = self.ctx
        if ctx is None:
            return
        ctx.count('streams_completed')
        ctx.count('tokens_checked', self.n)
        if self.bad:
            return
        if self.endm != 1 or self.last_type != 'ENDMARKER':
            self.v('endmarker', '%d end markers, last token %s' % (self.endm, self.last_type))
        if self.off != len(self.text):
            self.v('stream_incomplete', 'tokens cover %d of %d characters' % (self.off, len(self.text)))
        if self.dedent - self.indent != self.init_indents - 1:
            self.v('indent_balance', '%d INDENT vs %d DEDENT (initial indentation stack %d)' % (self.indent, self.dedent, self.init_indents))
        if self.n > 2 * len(self.text) + 3 * len(self.lines) + 8:
            self.v('token_count', '%d tokens for %d characters' % (self.n, len(self.text)))
        if self.flags:
            ctx.nontriv(self.w['version'] + '\0' + self.text)
            for f in self.flags:
                ctx.count('streams_with_' + f)


def _sp_snap(args, kwargs):
    return None


def _check_parts(leaf, parts, start, ctx, w):
    prefix = leaf.prefix
    if ''.join(p.spacing + p.value if p.type != 'spacing' else p.value for p in parts) != prefix:
        ctx.violation('split_tiling', 'parts %r do not tile prefix %r' % ([(p.type, p.spacing, p.value) for p in parts], prefix), w)
        return
    pos = start
    types = set()
    for p in parts:
        types.add(p.type)
        sp = pos if p.type == 'spacing' else adv(pos, p.spacing)
        if p.start_pos != sp:
            ctx.violation('part_start_pos', '%s part %r of prefix %r: start_pos %s, true %s' % (p.type, p.value, prefix, p.start_pos, sp), w,
                          bom=BOM in prefix)
            return
        if p.type != 'spacing' and p.spacing:
            # the spacing before a part, as a part of its own (what the PEP 8 checker walks): the same text at the same place
            try:
                q = p.create_spacing_part()
                ctx.count('spacing_parts_checked')
                if q.type != 'spacing' or q.value != p.spacing or q.start_pos != pos or (q.end_pos != sp and '\n' not in p.spacing and '\r' not in p.spacing):
                    ctx.violation('spacing_part', 'create_spacing_part of %s part %r: %r at %s..%s, the spacing %r stands at %s..%s' % (
                        p.type, p.value, q.value, q.start_pos, q.end_pos, p.spacing, pos, sp), w, bom=BOM in prefix)
                    return
            except Exception as e:
                ctx.violation('spacing_part', 'create_spacing_part raised %r' % (e,), w)
                return
        e = sp if p.type == 'bom' else adv(sp, p.value)
        if p.end_pos != e:
            ctx.violation('part_end_pos', '%s part %r of prefix %r: end_pos %s, true %s' % (p.type, p.value, prefix, p.end_pos, e), w,
                          bom=BOM in prefix)
            return
        pos = e
    if pos != leaf.start_pos:
        ctx.violation('parts_end', 'parts of prefix %r end at %s, leaf starts at %s' % (prefix, pos, leaf.start_pos), w, bom=BOM in prefix)
    if len(types - {'spacing'}) >= 2:
        ctx.count('prefixes_with_2_part_types')


def _judge_tree_prefixes(ctx, v, code, m):
    w = {'version': v, 'code': code}
    for leaf in leaves(m):
        if is_virtual(leaf):
            continue
        ctx.count('prefix_splits')
        if not leaf.prefix:
            continue
        try:
            start = leaf.get_start_pos_of_prefix()
            parts = list(leaf._split_prefix())
        except Exception as e:
            info = harness.exc_info(e)
            ctx.violation('split_prefix_raised', '%s in %s: %s; prefix %r' % (info['type'], info['func'], info['line'], leaf.prefix),
                          w, exc=info, prefix=leaf.prefix)
            return
        _check_parts(leaf, parts, start, ctx, w)


def _install(ctx):
    if _state.get('installed'):
        _state['ctx'] = ctx
        return
    _state['installed'] = True
    import parso.python.prefix
    import parso.python.tokenize as T
    _state['ctx'] = ctx
    contracts.wrap_generator(T, 'tokenize_lines', StreamChecker)

    def sp_post(result, args, kwargs, old):
        _state['ctx'].count('contract_evals:split_prefix')
    contracts.install(parso.python.prefix, 'split_prefix', sp_post)


def _judge(ctx, v, code, rng):
    import parso
    from parso.python.tokenize import tokenize, tokenize_lines
    from parso.utils import parse_version_string, split_lines
    vi = parse_version_string(v)
    ctx.count('evaluations')
    prev = _state.get('prev_code')
    if prev is not None and rng.random() < .1:
        # a token stream that is never exhausted (a caller that stops early, a strict parse that raises) must not
        # influence the next stream
        ctx.count('prior_abandoned_streams')
        try:
            it = tokenize(prev, version_info=vi)
            for _ in range(rng.randint(1, 8)):
                next(it)
            del it
        except Exception:
            pass
    _state['prev_code'] = code
    try:
        toks = list(tokenize(code, version_info=vi))
    except Exception:
        toks = None     # recorded by the stream checker
    if toks is not None and len(code) < 80:
        ctx.sample({'version': v, 'code': code, 'tokens': [[t.type.name, t.string, t.prefix] for t in toks][:12]})
    if rng.random() < .15:
        # the diff parser's way of calling it: later start line, inherited indentation stack
        lines = split_lines(code, keepends=True)
        k = rng.randrange(len(lines))
        ind = sorted(set([0] + [rng.choice([2, 4, 8]) for _ in range(rng.randint(0, 2))]))
        try:
            list(tokenize_lines(lines[k:], version_info=vi, start_pos=(k + 1, 0), indents=list(ind), is_first_token=(k == 0)))
            ctx.count('nondefault_arg_streams')
        except Exception:
            pass
    try:
        m = parso.load_grammar(version=v).parse(code)
    except Exception:
        return
    _judge_tree_prefixes(ctx, v, code, m)


def _gen(rng, files):
    r = rng.random()
    if r < .45:
        return G.fgarbage(rng)
    if r < .55:
        s = G.mixed(rng)
        return '﻿' + s if rng.random() < .5 else s
    if r < .65:
        parts = [rng.choice(['#', '\f', 'x', ' ', '\n', '\r', '\\\n', "f'", '"', '\t', '#\f', '# c', '﻿', '\r\n', '(', ')'])
                 for _ in range(rng.randint(1, 14))]
        return ''.join(parts)
    return G.hostile(rng, files)


def run_shard(spec, ctx):
    _install(ctx)
    rng = random.Random(spec['seed'] + 3)
    if spec['kind'] == 'suite':
        return _text.run_repo_suite(ID, ctx)
    it = _text.whole_files(spec, ctx) if spec['kind'] == 'files' else _text.cases(spec, ctx, gen=_gen)
    for v, code, origin in it:
        _judge(ctx, v, code, rng)


def replay(w, ctx):
    _install(ctx)
    _judge(ctx, w['version'], w['code'], random.Random(0))
    a = w.get('args')
    if a and (a.get('indents') or a.get('start_pos') != [1, 0]):
        from parso.python.tokenize import tokenize_lines
        from parso.utils import parse_version_string, split_lines
        try:
            list(tokenize_lines(split_lines(w['code'], keepends=True), version_info=parse_version_string(w['version']),
                                start_pos=tuple(a['start_pos']), indents=a['indents'], is_first_token=a['is_first_token']))
        except Exception:
            pass


def shards(tier, seed):
    s = _text.shards(tier, seed, 48000, 800000)
    nf = 8
    s += [{'kind': 'files', 'shard': i, 'nshards': nf, 'file_stride': 16 if tier == 'quick' else 1,
           'budget_s': 60 if tier == 'quick' else 900} for i in range(nf)]
    if tier == 'thorough':
        s.append({'kind': 'suite'})
    return s


def floors(tier):
    return {'evaluations': 4000, 'streams_completed': 4000, 'prefix_splits': 20000, 'contract_evals:split_prefix': 5000,
            'streams_with_ERRORTOKEN': 500, 'streams_with_FSTRING_START': 500, 'prefixes_with_2_part_types': 100}


def install_for_suite(ctx):
    _install(ctx)
