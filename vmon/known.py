"""Known findings: mechanism classifiers over recorded violations.

/verif/known_findings.json is read, never written.  An `open` entry names a
classifier (a predicate below); a violation that its predicate accepts is reported
as KNOWN-FINDING instead of VIOLATION.  `fixed` entries suppress nothing.
Classifiers key on mechanism: monitor kind + exception type + raising function +
source text of the raising line, or a structural predicate on the witness -- never
on hashes, seeds or line numbers.
"""
import json
import os
import re

_HERE = os.path.dirname(os.path.dirname(os.path.abspath(__file__)))
CLASSIFIERS = {}
_entries = None


def classifier(name):
    def deco(f):
        CLASSIFIERS[name] = f
        return f
    return deco


def entries():
    global _entries
    if _entries is None:
        with open(os.path.join(_HERE, 'known_findings.json')) as f:
            _entries = json.load(f)['findings']
    return _entries


def classify(v):
    for e in entries():
        if e.get('status') != 'open' or v['property'] not in e['properties']:
            continue
        f = CLASSIFIERS.get(e['classifier'])
        if f is None:
            continue
        try:
            if f(v):
                return e['id']
        except Exception:
            continue
    return None


def describe(fid):
    for e in entries():
        if e['id'] == fid:
            return e['what']
    return '?'


# ---------------------------------------------------------------------------
# helpers

def _exc(v):
    return (v.get('detail') or {}).get('exc') or {}


def _code(v):
    w = v.get('witness') or {}
    c = w.get('code')
    return c if isinstance(c, str) else ''


def _is_exc(v, type_, func=None, line_has=None):
    e = _exc(v)
    if e.get('type') != type_:
        return False
    if func is not None and e.get('func') != func:
        return False
    if line_has is not None and line_has not in (e.get('line') or ''):
        return False
    return True


# ---------------------------------------------------------------------------
# C13

@classifier('c13_fstring_error_node_reported_on_own_line')
def _c13_fstring(v):
    """F-C13-1: for grammars >= 3.9 an error node that contains an fstring_start or lies inside an
    fstring is reported on the error node's own first line instead of on the following token's
    line.  The node's own first line must carry an issue, so an unreported error node stays a
    violation."""
    d = v.get('detail') or {}
    return v['kind'] == 'error_node_unreported' and d.get('fstring') is True and d.get('version_ge_39') is True \
        and d.get('own_first_line_reported') is True


# ---------------------------------------------------------------------------
# C05

ALWAYS_BREAK = {';', 'import', 'class', 'def', 'try', 'except', 'finally', 'while', 'with', 'return', 'continue',
                'break', 'del', 'pass', 'global', 'assert', 'nonlocal'}


@classifier('c05_missing_newline_before_always_break_keyword')
def _c05_nl(v):
    """F-C05-1: the leaf after the newline-less simple_stmt is an always-break keyword and the line
    break before it sits in its prefix (no NEWLINE token was produced although a new line began:
    only possible while a bracket/f-string was open, which is when that keyword resets the
    bracket state and emits DEDENT directly)."""
    d = v.get('detail') or {}
    return v['kind'] == 'missing_newline_mid_file' and d.get('next_value') in ALWAYS_BREAK \
        and d.get('next_prefix_has_newline') is True
