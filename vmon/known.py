"""Known findings: mechanism classifiers over recorded violations.

/verif/known_findings.json is read, never written.  An `open` entry names a
classifier (a predicate below); a violation that its predicate accepts is reported
as KNOWN-FINDING instead of VIOLATION.  `fixed` entries suppress nothing.
Classifiers key on mechanism: monitor kind + exception type + raising function +
source text of the raising line, or a structural predicate on the witness -- never
on hashes, seeds or line numbers.
"""
import json
import os
import re

_HERE = os.path.dirname(os.path.dirname(os.path.abspath(__file__)))
CLASSIFIERS = {}
_entries = None


def classifier(name):
    def deco(f):
        CLASSIFIERS[name] = f
        return f
    return deco


def entries():
    global _entries
    if _entries is None:
        with open(os.path.join(_HERE, 'known_findings.json')) as f:
            _entries = json.load(f)['findings']
    return _entries


def classify(v):
    for e in entries():
        if e.get('status') != 'open' or v['property'] not in e['properties']:
            continue
        f = CLASSIFIERS.get(e['classifier'])
        if f is None:
            continue
        try:
            if f(v):
                return e['id']
        except Exception:
            continue
    return None


def describe(fid):
    for e in entries():
        if e['id'] == fid:
            return e['what']
    return '?'


# ---------------------------------------------------------------------------
# helpers

def _exc(v):
    return (v.get('detail') or {}).get('exc') or {}


def _code(v):
    w = v.get('witness') or {}
    c = w.get('code')
    return c if isinstance(c, str) else ''


def _is_exc(v, type_, func=None, line_has=None):
    e = _exc(v)
    if e.get('type') != type_:
        return False
    if func is not None and e.get('func') != func:
        return False
    if line_has is not None and line_has not in (e.get('line') or ''):
        return False
    return True


# ---------------------------------------------------------------------------
# C13

@classifier('c13_fstring_error_node_reported_on_own_line')
def _c13_fstring(v):
    """F-C13-1: for grammars >= 3.9 an error node that contains an fstring_start or lies inside an
    fstring is reported on the error node's own first line instead of on the following token's
    line.  The node's own first line must carry an issue, so an unreported error node stays a
    violation."""
    d = v.get('detail') or {}
    return v['kind'] == 'error_node_unreported' and d.get('fstring') is True and d.get('version_ge_39') is True \
        and d.get('own_first_line_reported') is True


# ---------------------------------------------------------------------------
# C05

ALWAYS_BREAK = {';', 'import', 'class', 'def', 'try', 'except', 'finally', 'while', 'with', 'return', 'continue',
                'break', 'del', 'pass', 'global', 'assert', 'nonlocal'}


@classifier('c05_missing_newline_before_always_break_keyword')
def _c05_nl(v):
    """F-C05-1: the leaf after the newline-less simple_stmt is an always-break keyword and the line
    break before it sits in its prefix (no NEWLINE token was produced although a new line began:
    only possible while a bracket/f-string was open, which is when that keyword resets the
    bracket state and emits DEDENT directly)."""
    d = v.get('detail') or {}
    return v['kind'] == 'missing_newline_mid_file' and d.get('next_value') in ALWAYS_BREAK \
        and d.get('next_prefix_has_newline') is True


# ---------------------------------------------------------------------------
# C10

@classifier('c10_pep701_fstring')
def _c10_pep701(v):
    """F-C10-1: grammar >= 3.12, the program contains an f-string with PEP 701-only syntax (quote reuse,
    comment, backslash or line break inside a replacement field) and the first difference lies at or
    after that f-string's line."""
    d = v.get('detail') or {}
    return v['kind'].startswith('token_') and d.get('version_ge_312') is True and d.get('pep701_first_line') is not None \
        and d.get('line') is not None and d['line'] >= d['pep701_first_line']


@classifier('c10_formfeed_indentation')
def _c10_ff(v):
    """F-C10-2: a logical line whose leading whitespace contains a form feed precedes (or is) the line
    of the first difference, and the differing tokens include an INDENT/DEDENT/ERROR_DEDENT."""
    d = v.get('detail') or {}
    if v['kind'] != 'token_type' or d.get('first_formfeed_indent_line') is None or d.get('line') is None:
        return False
    virt = ('INDENT', 'DEDENT', 'ERROR_DEDENT')
    rt, pt = (d.get('ref_token') or [None])[0], (d.get('parso_token') or [None])[0]
    return d['line'] >= d['first_formfeed_indent_line'] and (rt in virt or pt in virt) and rt != pt


# ---------------------------------------------------------------------------
# C12   (detail: sense, message, ancestors, leaf_value, line_text, version_tuple, mech{...})

def _c12(v):
    d = v.get('detail') or {}
    msg = (d.get('message') or '').replace('SyntaxError: ', '')
    if msg.startswith('f-string: '):
        msg = msg[len('f-string: '):]      # the same rule firing inside an f-string replacement field
    return d, msg, d.get('mech') or {}, tuple(d.get('version_tuple') or (0, 0))


@classifier('c12_nonlocal_dunder_class')
def _c12_nonlocal_class(v):
    d, msg, mech, ver = _c12(v)
    return msg == "no binding for nonlocal '__class__' found" and d.get('leaf_value') == '__class__' \
        and 'classdef' in (d.get('ancestors') or [])


@classifier('c12_async_generator_expression_outside_async_function')
def _c12_async_genexp(v):
    d, msg, mech, ver = _c12(v)
    return msg in ('asynchronous comprehension outside of an asynchronous function', "'await' outside async function") \
        and mech.get('genexp') is True and ver >= (3, 7) and mech.get('innermost_comprehension') == 'list_set_dict'


@classifier('c12_fstring_backslash_312')
def _c12_fs_backslash(v):
    d, msg, mech, ver = _c12(v)
    return msg == 'f-string expression part cannot include a backslash' and ver >= (3, 12)


@classifier('c12_fstring_nested_spec_312')
def _c12_fs_nested(v):
    d, msg, mech, ver = _c12(v)
    return msg == 'expressions nested too deeply' and ver >= (3, 12)


@classifier('c12_import_binding_then_global')
def _c12_import_global(v):
    d, msg, mech, ver = _c12(v)
    import re
    return bool(re.match(r"name '[^']+' is (used prior to|assigned to before) global declaration$", msg)) \
        and 'global_stmt' in (d.get('ancestors') or []) and mech.get('earlier_occurrences_all_in_imports') is True


@classifier('c12_dead_code_not_checked_by_cpython_le_37')
def _c12_dead(v):
    d, msg, mech, ver = _c12(v)
    import re
    return ver <= (3, 7) and mech.get('in_constant_false_block') is True and bool(re.match(
        r"('(yield|return|continue|break|await|yield from)' (outside function|not properly in loop|outside loop|outside async function)"
        r"|from __future__ imports must occur at the beginning of the file|can't use starred expression here"
        r"|'continue' not supported inside 'finally' clause)$", msg))


@classifier('c12_raw_fstring_backslash_brace')
def _c12_raw_fstring(v):
    d, msg, mech, ver = _c12(v)
    import re
    lt = d.get('err_span_text') or d.get('line_text') or ''
    # an f-string (raw or not) whose text contains a backslash directly before a brace (or \\N{ in a raw one)
    fl = d.get('fstring_backslash_brace_first_line')
    if fl is not None and d.get('line') is not None and d['line'] >= fl and \
            (v['kind'] == 'a_error_node' or 'strings' in (d.get('ancestors') or []) or 'fstring' in (d.get('ancestors') or [])):
        return True      # the text after that f-string is read differently (quotes pair up differently), wherever the issue lands
    if v['kind'] != 'a_error_node':
        # the mis-tokenized f-string can also surface as an issue on its own line (e.g. 'cannot mix bytes and nonbytes literals')
        lt = d.get('line_text') or ''
        if 'fstring' not in (d.get('ancestors') or []) and 'strings' not in (d.get('ancestors') or []):
            return False
    return bool(re.search(r'(?i)(?<![a-z0-9_])(f|rf|fr)("|\')', lt)) \
        and ('\\{' in lt or '\\}' in lt or bool(re.search(r'(?i)(rf|fr)("|\').*\\N\{', lt, re.S)))


@classifier('c12_formfeed_indentation')
def _c12_ff(v):
    d, msg, mech, ver = _c12(v)
    ff = d.get('first_formfeed_indent_line')
    if ff is None or d.get('line') is None:
        return False
    # the form-feed line is the erroneous line, or the line of the token that ended the error node
    if not (d['line'] >= ff or (d.get('next_leaf_line') is not None and d['line'] <= ff <= d['next_leaf_line'])):
        return False
    if v['kind'] == 'a_error_node':
        return True
    return (d.get('message') or '').startswith('IndentationError: ')


@classifier('c12_fstring_nested_field_with_own_spec')
def _c12_fs_nested_spec(v):
    d, msg, mech, ver = _c12(v)
    import re
    lt = d.get('line_text') or ''
    return v['kind'] == 'a_error_node' and bool(re.search(r'(?i)\bf[r]?("|\')', lt) or re.search(r'(?i)\brf("|\')', lt)) \
        and bool(re.search(r'\{[^{}]*:[^{}]*\{[^{}:]*:[^{}]*\}', lt))


# ---------------------------------------------------------------------------
# C14

@classifier('c14_walrus_target_in_call_argument')
def _c14_walrus_arg(v):
    """F-C14-1: `f(a := 1)` / `x[a := 1]`: the name is followed by ':=' inside an `argument` or `subscript`
    node (the grammar inlines the assignment expression there instead of building a namedexpr_test)"""
    d = v.get('detail') or {}
    import re
    return v['kind'] == 'is_definition' and d.get('got') is False and d.get('want') is True \
        and (d.get('ancestors') or [None])[0] in ('argument', 'subscript') and d.get('next_sibling') == ':='


# ---------------------------------------------------------------------------
# C20: crash sites of the PEP 8 normalizer, keyed by (exception type, function, text of the raising line)

def _site_match(v, sites):
    e = _exc(v)
    for t, f, line_has in sites:
        if e.get('type') == t and e.get('func') == f and line_has in (e.get('line') or ''):
            return True
    return False


C20_TAB_SITES = [
    ('TypeError', '__init__', 'self.bracket_indentation = parent_indentation'),
    ('TypeError', '__init__', "self.indentation += ' '"),
    ('TypeError', '_visit_node', 'self._indentation_tos.indentation + self._config.indentation'),
    ('TypeError', '_visit_part', 'if len(indentation) < len(should_be_indentation):'),
    ('TypeError', '_visit_part', 'if len(indentation) > len(n.indentation):'),
]
C20_STACK_SITES = [
    ('AssertionError', '_visit_node', 'assert self._indentation_tos.type == IndentationTypes.SUITE'),
    ('AttributeError', '_visit_node', 'assert self._indentation_tos.type == IndentationTypes.SUITE'),
    ('AssertionError', '_visit_part', 'assert node.type != IndentationTypes.IMPLICIT'),
    ('AttributeError', '_get_wanted_blank_lines_count', 'suite_node = self._indentation_tos.get_latest_suite_node()'),
    ('AttributeError', '_visit_part', 'if node.type == IndentationTypes.BACKSLASH'),
    ('AttributeError', '_visit_part', 'if len(indentation) > len(n.indentation):'),
]


@classifier('c20_tab_config_none_indentation')
def _c20_tab(v):
    """F-C20-1: under a tab indentation config a vertical bracket gets indentation None, which later code adds/measures"""
    w = v.get('witness') or {}
    return v['kind'] == 'normalizer_raised' and str(w.get('config', '')).startswith('tab') and _site_match(v, C20_TAB_SITES)


@classifier('c20_indentation_stack_underflow')
def _c20_stack(v):
    """F-C20-2: the indentation-node stack is popped once too often (trailing comma in a set/dict display, backslash at
    the start of a file, implicit-indentation nodes around recovered code); the next access finds None or a wrong node type"""
    return v['kind'] == 'normalizer_raised' and _site_match(v, C20_STACK_SITES)


@classifier('c12_name_used_in_lambda_then_global')
def _c12_lambda_global(v):
    """F-C12-12: every earlier occurrence of the name lies inside a lambda (its own scope), yet the global
    declaration in the enclosing scope is reported as 'used prior to global declaration'"""
    d, msg, mech, ver = _c12(v)
    import re
    return bool(re.match(r"name '[^']+' is (used prior to|assigned to before) global declaration$", msg)) \
        and mech.get('earlier_occurrences_none_plain') is True and mech.get('earlier_occurrences_all_in_imports') is not True


@classifier('c12_genexp_as_class_argument_36')
def _c12_class_genexp(v):
    """F-C12-13: grammar 3.6: an unparenthesised generator expression as sole class argument (legal until 3.6)"""
    d, msg, mech, ver = _c12(v)
    anc = d.get('ancestors') or []
    import re
    return ver <= (3, 6) and msg == 'invalid syntax' and 'classdef' in anc[:3] and bool(re.match(r'\s*class\s+\w+\s*\(.*\bfor\b.*\bin\b', d.get('line_text') or ''))


@classifier('c12_await_as_name_36')
def _c12_await_name(v):
    """F-C12-14: grammar 3.6: `await` is an ordinary name outside async functions (e.g. a call `await(x)`), parso parses an await expression"""
    d, msg, mech, ver = _c12(v)
    return ver <= (3, 6) and msg == "'await' outside async function" and d.get('leaf_value') == 'await'


@classifier('c12_type_param_name_then_global')
def _c12_typeparam_global(v):
    """F-C12-15: every earlier occurrence of the name is a PEP 695 type parameter (own scope), yet a later global
    declaration in the enclosing scope is reported"""
    d, msg, mech, ver = _c12(v)
    import re
    return ver >= (3, 12) and bool(re.match(r"name '[^']+' is (used prior to|assigned to before) global declaration$", msg)) \
        and mech.get('earlier_occurrence_kinds') == ['type_param']


@classifier('c12_del_debug_le_38')
def _c12_del_debug(v):
    """F-C12-16: `del __debug__` is accepted by CPython <= 3.9; parso reports 'cannot assign to __debug__'"""
    d, msg, mech, ver = _c12(v)
    return ver <= (3, 9) and msg == 'cannot assign to __debug__' and 'del_stmt' in (d.get('ancestors') or []) and d.get('leaf_value') == '__debug__'


@classifier('c12_annotated_global_at_module_level_ge_38')
def _c12_ann_global(v):
    """F-C12-17: at module level `global x; x: int` is accepted by CPython >= 3.8 (a module-level global declaration is a no-op)"""
    d, msg, mech, ver = _c12(v)
    import re
    return ver >= (3, 8) and bool(re.match(r"annotated name '[^']+' can't be global$", msg)) and mech.get('innermost_scope') == 'module'


@classifier('c12_parenthesised_starred_call_argument_le_38')
def _c12_paren_star(v):
    """F-C12-18: `f((*a), b)`: CPython <= 3.8 unwraps the parentheses and treats it as f(*a, b)"""
    d, msg, mech, ver = _c12(v)
    anc = d.get('ancestors') or []
    return ver <= (3, 8) and msg == "can't use starred expression here" and d.get('leaf_value') == '(' and len(anc) > 2 \
        and anc[1] == 'atom' and anc[2] in ('arglist', 'trailer', 'argument', 'classdef', 'decorator')


@classifier('c10_fstring_backslash_brace')
def _c10_fs_bs(v):
    """F-C10-3 (same mechanism as F-C12-1): an f-string whose text has a backslash directly before a brace is tokenized
    differently; the first difference lies at or after that f-string's line"""
    d = v.get('detail') or {}
    return v['kind'].startswith('token_') and d.get('fstring_backslash_brace_first_line') is not None and d.get('line') is not None \
        and d['line'] >= d['fstring_backslash_brace_first_line']


@classifier('c12_await_in_unevaluated_annotation')
def _c12_await_ann(v):
    """F-C12-19: `await` / `yield from` inside the annotation of an annotated assignment in a function body: CPython does not
    compile such annotations, so it never checks their placement"""
    d, msg, mech, ver = _c12(v)
    if mech.get('innermost_scope') != 'funcdef':
        return False
    if msg in ("'await' outside async function", "'yield from' inside async function") and 'annassign' in (d.get('ancestors') or []):
        return True
    # the same never-compiled annotation also makes CPython's symbol table treat the function as a coroutine, so every other await
    # of that function (also inside a list/set/dict comprehension) passes
    return msg in ("'await' outside async function", 'asynchronous comprehension outside of an asynchronous function') \
        and mech.get('scope_has_await_in_local_annotation') is True


@classifier('c14_fstring_backslash_brace')
def _c14_fs_bs(v):
    """F-C14-2 (mechanism of F-C12-1/F-C10-3): the program contains an f-string with a backslash directly before a brace;
    parso tokenizes it differently from CPython without an error node, so leaves exist where CPython sees string text"""
    d = v.get('detail') or {}
    return d.get('fstring_backslash_brace') is True


@classifier('c12_relative_dunder_future_import')
def _c12_rel_future(v):
    """F-C12-20: grammar >= 3.13: `from .__future__ import x` (relative import of a module called __future__) is no longer a
    __future__ import for CPython 3.13+, parso still treats it as one (correct up to 3.12)"""
    d, msg, mech, ver = _c12(v)
    import re
    return ver >= (3, 13) and (msg.startswith('future feature ') or msg.startswith('from __future__ imports must occur') or msg in ('not a chance',)) \
        and bool(re.search(r'\bfrom\s*\.+\s*__future__\b', d.get('line_text') or ''))


@classifier('c12_barry_as_flufl_refused')
def _c12_flufl(v):
    """F-C12-21: `from __future__ import barry_as_FLUFL` (a feature every CPython accepts) is refused on purpose"""
    d, msg, mech, ver = _c12(v)
    return msg == "Seriously I'm not implementing this :) ~ Dave" and 'barry_as_FLUFL' in (d.get('line_text') or '') \
        and 'import_from' in (d.get('ancestors') or [])


@classifier('c12_yield_from_in_comprehension_in_async_def_le_37')
def _c12_yf_comp(v):
    """F-C12-22: grammar <= 3.7: `yield from` inside a comprehension (its own, synchronous scope for CPython <= 3.7) in the
    body of an async function"""
    d, msg, mech, ver = _c12(v)
    if ver > (3, 7):
        return False
    if msg in ("'yield from' inside async function", "'yield' outside function") and mech.get('in_comprehension') is True:
        return True      # the comprehension is the (synchronous) function scope the yield belongs to
    # ... and a yield there does not make the enclosing async function a generator
    return msg == "'return' with value in async generator" and mech.get('scope_yields', 0) > 0 \
        and mech.get('scope_yields') == mech.get('scope_yields_in_comprehensions')

