"""Known findings: mechanism classifiers over recorded violations.

/verif/known_findings.json is read, never written.  An `open` entry names a
classifier (a predicate below); a violation that its predicate accepts is reported
as KNOWN-FINDING instead of VIOLATION.  `fixed` entries suppress nothing.
Classifiers key on mechanism: monitor kind + exception type + raising function +
source text of the raising line, or a structural predicate on the witness -- never
on hashes, seeds or line numbers.
"""
import json
import os
import re

_HERE = os.path.dirname(os.path.dirname(os.path.abspath(__file__)))
CLASSIFIERS = {}
_entries = None


def classifier(name):
    def deco(f):
        CLASSIFIERS[name] = f
        return f
    return deco


def entries():
    global _entries
    if _entries is None:
        with open(os.path.join(_HERE, 'known_findings.json')) as f:
            _entries = json.load(f)['findings']
    return _entries


def classify(v):
    for e in entries():
        if e.get('status') != 'open' or v['property'] not in e['properties']:
            continue
        f = CLASSIFIERS.get(e['classifier'])
        if f is None:
            continue
        try:
            if f(v):
                return e['id']
        except Exception:
            continue
    return None


def describe(fid):
    for e in entries():
        if e['id'] == fid:
            return e['what']
    return '?'


# ---------------------------------------------------------------------------
# helpers

def _exc(v):
    return (v.get('detail') or {}).get('exc') or {}


def _code(v):
    w = v.get('witness') or {}
    c = w.get('code')
    return c if isinstance(c, str) else ''


def _is_exc(v, type_, func=None, line_has=None):
    e = _exc(v)
    if e.get('type') != type_:
        return False
    if func is not None and e.get('func') != func:
        return False
    if line_has is not None and line_has not in (e.get('line') or ''):
        return False
    return True
