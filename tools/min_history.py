#!/venv/bin/python
"""Minimise a C04 witness: tools/min_history.py replay/C04/x.json  -> shortest history (old -> new) with the same violation kind"""
import json, os, sys
sys.path.insert(0, os.path.dirname(os.path.dirname(os.path.abspath(__file__))))
from vmon import harness
harness.ensure_deps(); harness.import_parso()
from vmon.props import c04
w = json.load(open(sys.argv[1]))
kind = w['kind']; v = w['witness']['version']; hist = w['witness']['history']


def bad(h):
    ctx = harness.Ctx('C04')
    try:
        c04.replay({'version': v, 'history': h}, ctx)
    except Exception:
        return False
    return any(x['kind'] == kind for x in ctx.violations)


assert bad(hist), 'does not reproduce'
# drop leading steps
while len(hist) > 2 and bad(hist[1:]):
    hist = hist[1:]
for k in range(len(hist) - 2, 0, -1):
    if bad(hist[:k] + hist[k + 1:]):
        hist = hist[:k] + hist[k + 1:]


def ddmin(idx):
    global hist
    for unit in ('line', 'char'):
        parts = hist[idx].splitlines(True) if unit == 'line' else list(hist[idx])
        n = 2
        while len(parts) >= 2:
            chunk = max(1, len(parts) // n)
            red = False
            for i in range(0, len(parts), chunk):
                cand = parts[:i] + parts[i + chunk:]
                h2 = list(hist); h2[idx] = ''.join(cand)
                if bad(h2):
                    parts, n, red = cand, max(n - 1, 2), True
                    hist = h2
                    break
            if not red:
                if chunk == 1:
                    break
                n = min(n * 2, len(parts))


for rnd in range(2):
    for i in range(len(hist)):
        ddmin(i)
print(json.dumps({'version': v, 'history': hist}))
