#!/usr/bin/env python3
"""Regenerates DESIGN.md §7.3 (fixes), §7.4 (open findings) and §7.5 (seeded changes) from known_findings.json and seeded/*/meta.json."""
import json, glob, os
here = os.path.dirname(os.path.dirname(os.path.abspath(__file__)))
p = os.path.join(here, 'DESIGN.md')
s = open(p).read()
kf = json.load(open(os.path.join(here, 'known_findings.json')))
rows = []
for l in kf['fixed']:
    parts = l.split(' ', 3)
    rows.append((parts[1].split('=')[1], parts[2], parts[3]))
t73 = ('### 7.3 Genuine defects repaired in `/repo` (one `fix:` commit each, suite unedited and passing)\n'
       'Regenerated from `known_findings.json` (`fixed:` lines; they suppress nothing).  %d repairs.\n\n| property | commit | what failed |\n|---|---|---|\n' % len(rows))
for r in rows:
    t73 += '| %s | %s | %s |\n' % (r[0], r[1], r[2].replace('|', '\\|'))
i = s.index('### 7.3 Genuine defects repaired'); j = s.index('### 7.4 Open findings')
s = s[:i] + t73 + '\n' + s[j:]
t74 = ('### 7.4 Open findings (`known_findings.json`; each prints a KNOWN-FINDING line when observed)\n'
       'Classifiers are predicates over the witness *mechanism* (exception type + function + text of the raising line; issue message +\n'
       'structural facts computed from the tree / reference tokens / AST), listed in `vmon/known.py`; nothing is keyed on hashes, seeds or\n'
       'line numbers.  The C12 list is long because the valid-program workload (snippets x mutations x derivations x lexical literals x eight\n'
       'interpreters) keeps surfacing CPython version quirks and scope-analysis approximations; each was confirmed against the real\n'
       'interpreter before it was listed.\n\n| id | properties | mechanism |\n|---|---|---|\n')
for e in kf['findings']:
    if e['status'] == 'open':
        t74 += '| %s | %s | %s |\n' % (e['id'], ' '.join(e['properties']), e['what'].replace('|', '\\|'))
i = s.index('### 7.4 Open findings'); j = s.index('### 7.5 Seeded changes')
s = s[:i] + t74 + '\n' + s[j:]
rows = []
for d in sorted(glob.glob(os.path.join(here, 'seeded', '*', 'meta.json'))):
    m = json.load(open(d))
    rows.append((m['id'], m['breaks_property'], (', '.join(m['caught_by_quick_checks']) or 'none (outside the checked domain, see meta.json)') + (' (no longer a defect, see meta.json)' if m.get('neutralised_by') else ''),
                 ', '.join(m['not_caught_by']) or '—', 'yes' if 'strengthening' in m else ''))
nstr = sum(1 for r in rows if r[4])
t75 = '''### 7.5 Seeded changes (independent sub-agents; `/verif/seeded/<id>/`)
Each sub-agent received only the text of one property and a scratch worktree (rounds 2 to 5 additionally a one-line description of
the changes already produced for that property, to be avoided; round 4 also the request to aim at what random and hostile workloads
are unlikely to reach - one grammar version, a rare token, a boundary value, a long or order-sensitive sequence, two coinciding
conditions - and to confirm with a fuzz loop of its own that plain random inputs do not expose the change), and had to deliver two source changes that keep all 1987 repository
tests passing, break the property, need something specific to manifest, and come with a demonstration that fails with the change and
passes without.  Every change below was re-confirmed with `tools/try_mutant.sh` (suite passes with the change; demo exit 1 with /
exit 0 without) and then run against the listed quick checks through `PARSO_SRC` (a scratch worktree; `/repo` itself was never
modified).  "strengthened" = the check first missed the change (or only another property's check saw it) and the workload/monitor
was extended; what was added is in the change's `meta.json` (`strengthening`).  `tools/run_seeded.py` re-runs the whole corpus.

| seeded change | property | caught by (quick tier) | run but not caught by | strengthened |
|---|---|---|---|---|
'''
for r in rows:
    t75 += '| %s | %s | %s | %s | %s |\n' % r
t75 += '''
%d changes, %d of which led to a strengthening.  Recurring independent inventions: the mutable default `indents=[0]` of the
tokenizer (five sub-agents: C02, C07, C09, C10, C18), the lost `=` of a `:=` format spec (C01, C06, C09), rule instances cached
per normalizer class (C18, C20), a memo of checked string payloads (C13, C18).  Strengthenings that came out of missed changes:
C02 (abandoned prior calls; CPU-time budget on a killable child for spins inside C code), C03 (trees of incremental parses),
C04 (structured template programs; signature of helper-derived facts), C06 (bounded-exhaustive derivations per rule form, child
form and first token = every plan of the tables; lossless-tokenizer domain guard), C07 (valid texts without final newline), C08
(repetition written on bare symbols), C09/C10 (abandoned token streams), C10/C12/C13/C14 (lexical literal workload; walrus /
alias / f-string-text / long-unpacking / dotted-__future__ snippets; deterministic all-snippets pass), C13 (re-listing after other
calls), C15 (reference authoritative for lone CR; long codec names; files read by path), C16 (in-flight write during a diff_cache
re-parse; eviction under real grammar hashes followed by a cross-grammar parse; version-sensitive contents), C17 (access and
modification times drawn independently).  Round 4 (changes E/F; aimed at rare triggers) was missed more often at first - 25 of its 37 changes (two more were
re-inventions of archived ones and are not kept twice) - and led to: a deep-nesting generator and an end-of-file generator in the hostile mix, compositional generators for
binding targets and for yield/await positions, the line-coverage census of section 7.2c with triggers for every reachable unexecuted
branch of errors.py, C04 line-ending styles / tail edits / crowded memory cache, C05 param grouping, C11 node-level leaf navigation,
C13 sub-tree listings, C15 results edited by the caller, C16 epoch and future modification-time lines, C17 empty/half-written
entries and a save in progress during clean-up, C19 deepest-leaf refactoring targets and pickling of queried trees, C06 numbers from the lexical grammar and a layout-only notion of
'out of domain', C07 near-miss texts (joined lines, stray keyword), C08 crossed-target rules / tiny alphabets / rule-name styles, C10
control characters that are no line breaks, C12 identifiers from every corner of PEP 3131, C18 non-caching parses carrying the path
of a cached file, structured f-strings and size-threshold tokens in every hostile mix.  Round 5 (changes G/H, twelve properties, same instructions) was missed 19 times in 39 at first and added: a sweep over the whole read-only
API with option variants (`oracles/readonly.py`) after which the tree must be what it was (C05, C19), keyword look-alikes (NFKC) in every
hostile mix, C02 prior calls with another start_symbol and a parse aborted by the recursion limit, C13 listings of eval_input trees and
of modules updated in place (listed last before the next update), C16 FileIO objects kept by the caller and a path spelled through a
symlinked directory, C20 positions beyond a line's end and multi-line strings with separators, C04 block-continuing edits and decorated async definitions,
C06/C10/C12 continued strings that begin with the other quote and f-string texts compared piece by piece, C07 re-indented lines, C08 escaped
terminal spellings and a second token namespace (which exposed and led to the repair of a genuine generator defect), C12 special names in
reading positions, C17 another interpreter's version directory, C18 strict eval_input calls among the concurrent ones.  A short sixth round (ids I/J; C04 C13 C16 C20, 35 minutes per sub-agent, six changes) was missed four times at first: in-flight
writes now also hit diff_cache-only parses, a custom grammar loaded from a path shares files and cache directories with the default
version's grammar, and eight more rule triggers (with-items over global names; BOM followed by a continuation line).  One change of round 5
(C10-H) is recorded as not caught: it only shows on texts CPython tokenizes but cannot compile, outside the domain C10 judges (7.2e).  One earlier
change (C19-A) stopped being a defect after a later repair of `_create_params` and is kept for the record only.  Sub-agents also reported defects of the *unchanged* tree that their demonstrations had to
avoid (list target in a comprehension with a walrus -> UnboundLocalError; f-string text equal to a keyword feeding syntax rules and
is_generator(); comma lost when `def f(*,)` is rebuilt from its dump; a damaged pickle that still unpickles to a wrong tree -- the
last one is a limit of a checksum-less cache and was excluded from the enumeration, the others were reproduced, repaired and the
generators extended so that the checks reach them).
''' % (len(rows), nstr)
i = s.index('### 7.5 Seeded changes')
s = s[:i] + t75
open(p, 'w').write(s)
print(len(rows), 'seeded;', len(kf['fixed']), 'fixed;', sum(1 for e in kf['findings'] if e['status'] == 'open'), 'open')
