#!/usr/bin/env python3
"""Regression over the seeded changes: every /verif/seeded/<id>/patch.diff against the quick tier of the check(s) that
are recorded as catching it.   tools/run_seeded.py [--all-caught] [id-prefix ...]   -> table + exit 1 if one is missed"""
import json, os, subprocess, sys, glob, re
here = os.path.dirname(os.path.dirname(os.path.abspath(__file__)))
args = [a for a in sys.argv[1:] if not a.startswith('--')]
allc = '--all-caught' in sys.argv
missed = []
for d in sorted(glob.glob(os.path.join(here, 'seeded', '*'))):
    sid = os.path.basename(d)
    if args and not any(sid.startswith(a) for a in args):
        continue
    meta = json.load(open(os.path.join(d, 'meta.json')))
    if meta.get('neutralised_by'):
        print('%-55s no longer a defect: %s' % (sid, meta['neutralised_by'][:60]), flush=True)
        continue
    if not meta['caught_by_quick_checks']:
        print('%-55s recorded as not caught (see its meta.json)' % sid, flush=True)
        continue
    checks = meta['caught_by_quick_checks'] if allc else meta['caught_by_quick_checks'][:1]
    p = subprocess.run([os.path.join(here, 'tools', 'try_mutant.sh'), os.path.join(d, 'patch.diff'), '-'] + checks,
                       stdout=subprocess.PIPE, stderr=subprocess.STDOUT, timeout=3600)
    out = p.stdout.decode('utf-8', 'replace')
    res = dict(re.findall(r'^== (C\d+) rc=(\S+)', out, re.M))
    ok = all(res.get(c) == '1' for c in checks)
    print('%-55s %s' % (sid, ' '.join('%s:%s' % (c, {'1': 'caught', '0': 'MISSED', '2': 'inconclusive'}.get(res.get(c), res.get(c))) for c in checks)), flush=True)
    if not ok:
        missed.append(sid)
print('%d missed: %s' % (len(missed), missed))
sys.exit(1 if missed else 0)
