#!/venv/bin/python
"""Delta-debug the `code` of a recorded witness under the same monitor:  tools/minimize.py replay/C07/x.json"""
import importlib
import json
import os
import sys

sys.path.insert(0, os.path.dirname(os.path.dirname(os.path.abspath(__file__))))
from vmon import harness  # noqa
harness.ensure_deps()
harness.import_parso()


def main():
    w = json.load(open(sys.argv[1]))
    pid = w['property']
    mod = importlib.import_module('vmon.props.' + pid.lower())
    wit = harness.unjson(w['witness'])
    kind = w['kind']

    def bad(code):
        ctx = harness.Ctx(pid)
        try:
            mod.replay(dict(wit, code=code), ctx)
        except Exception:
            return False
        return any(v['kind'] == kind for v in ctx.violations) or (kind in ctx.known_ex)

    code = wit['code']
    assert bad(code), 'does not reproduce'
    # lines, then characters
    for unit in ('line', 'char'):
        parts = code.splitlines(True) if unit == 'line' else list(code)
        n = 2
        while len(parts) >= 2:
            chunk = max(1, len(parts) // n)
            reduced = False
            for i in range(0, len(parts), chunk):
                cand = parts[:i] + parts[i + chunk:]
                if cand and bad(''.join(cand)):
                    parts = cand
                    n = max(n - 1, 2)
                    reduced = True
                    break
            if not reduced:
                if chunk == 1:
                    break
                n = min(n * 2, len(parts))
        code = ''.join(parts)
    print(json.dumps({'version': wit.get('version'), 'code': code}))
    ctx = harness.Ctx(pid)
    mod.replay(dict(wit, code=code), ctx)
    for v in ctx.violations:
        print(v['kind'], v['msg'])


main()
