#!/usr/bin/env python3
"""Writes seeded/mutation_census.md from seeded/mutation_census.jsonl (+ _rerun.jsonl) and the hand-made triage below."""
import collections, json, os
here = os.path.dirname(os.path.dirname(os.path.abspath(__file__)))
rows = [json.loads(l) for l in open(os.path.join(here, 'seeded', 'mutation_census.jsonl'))]
rer = os.path.join(here, 'seeded', 'mutation_census_rerun.jsonl')
rerun = {(r['file'], r['kind'], r['site']): r for r in (json.loads(l) for l in open(rer))} if os.path.exists(rer) else {}
# triage of the survivors, by (file, line): why no check reports it
T = {
 'debug': 'debug / diagnostic code only (DEBUG_DIFF_PARSER block, LOG.debug arguments, _dump_nfa/_dump_dfas prints, error-message construction of a path no input reaches)',
 'dead': 'dead code (function or branch that no caller reaches: _get_expr_stmt_definition_exprs, E742/E743 branches testing for node types that do not exist, Leaf.get_start_pos_of_prefix of the base class which PythonLeaf overrides, grammar-parser error paths for token kinds the tokenizer never yields)',
 'message': 'only the wording or version-dependent text of a message changes (properties fix the code and the prefix, not the wording)',
 'sense_a': 'a syntax error CPython reports is no longer reported (the properties claim no false errors and a coherent list, not completeness of the semantic rules)',
 'api': 'an accessor outside the enumerated claims of C14 (get_decorators, IfStmt/TryStmt/WithStmt test-node helpers, ImportName.is_nested, ExprStmt.get_rhs/yield_operators, KeywordStatement, Stack._allowed_transition_names_and_token_types used by jedi)',
 'style': 'which style issues are reported changes (C20 claims totality, well-formedness, stability and E292 only)',
 'perf': 'behaviour stays correct, only speed / amount of copying / whether a pickle is written changes (trees still equal a fresh parse; cache stays transparent)',
 'equiv': 'equivalent on every input (e.g. maxsplit=2 -> 3 followed by [:2]; slice bound beyond the compared prefix; index that is only read for invalid targets)',
}
TRIAGE = {
 ('python/diff.py', 319): 'debug', ('python/diff.py', 299): 'debug', ('python/diff.py', 308): 'equiv', ('python/diff.py', 629): 'perf', ('python/diff.py', 792): 'perf',
 ('python/tree.py', 460): 'api', ('python/tree.py', 461): 'api', ('python/tree.py', 459): 'api', ('python/tree.py', 456): 'api', ('python/tree.py', 729): 'api',
 ('python/tree.py', 735): 'api', ('python/tree.py', 762): 'api', ('python/tree.py', 718): 'api', ('python/tree.py', 780): 'api', ('python/tree.py', 958): 'api',
 ('python/tree.py', 1089): 'api', ('python/tree.py', 802): 'api', ('python/tree.py', 1035): 'equiv',
 ('python/errors.py', 797): 'sense_a', ('python/errors.py', 242): 'dead', ('python/errors.py', 1135): 'message', ('python/errors.py', 913): 'message',
 ('python/errors.py', 1047): 'sense_a', ('python/errors.py', 41): 'message', ('python/errors.py', 1117): 'message',
 ('pgen2/generator.py', 233): 'debug', ('pgen2/generator.py', 237): 'debug', ('pgen2/generator.py', 227): 'debug',
 ('pgen2/grammar_parser.py', 152): 'dead', ('utils.py', 107): 'equiv', ('utils.py', 143): 'api', ('utils.py', 98): 'equiv',
 ('python/pep8.py', 681): 'dead', ('python/pep8.py', 207): 'style', ('python/pep8.py', 712): 'style',
 ('tree.py', 318): 'dead', ('tree.py', 321): 'dead', ('parser.py', 71): 'api', ('grammar.py', 154): 'perf',
}
c = collections.Counter(r['status'] for r in rows)
out = ['# Mutation census (tools/mutation_census.py, seed 1, 240 of 5157 sites)', '',
       'Mechanical one-edit mutants of parso\'s sources (comparison swapped, and/or swapped, `not` dropped, integer constant +-1, condition forced, '
       '`break`/`continue`/call statement dropped, slice bound shifted, return value dropped), each in a scratch copy. A mutant that the repository\'s own '
       '1987 tests already fail is dropped; the others run against the quick tier of the checks mapped to the file until one reports a violation. '
       'Mutants whose checks were inconclusive on the loaded machine were run again on a quiet one (all conclusive then).', '',
       '| outcome | mutants |', '|---|---|',
       '| killed by the repository\'s own suite | %d |' % c['killed_by_repo_suite'],
       '| passed the suite, reported by a check | %d (%s) |' % (c['caught'], ', '.join('%s %d' % kv for kv in collections.Counter(r['caught_by'] for r in rows if r['status'] == 'caught').most_common())),
       '| passed the suite and every mapped check | %d |' % c['survived'], '',
       '## The survivors, triaged by hand', '',
       'None of them breaks one of the twenty properties; the reasons:', '']
groups = collections.defaultdict(list)
for r in rows:
    if r['status'] == 'survived':
        groups[TRIAGE.get((r['file'], r.get('line')), 'untriaged')].append(r)
for k in ['debug', 'dead', 'message', 'sense_a', 'api', 'style', 'perf', 'equiv', 'untriaged']:
    if not groups.get(k):
        continue
    out.append('* **%d** - %s' % (len(groups[k]), T.get(k, 'not triaged yet')))
    for r in groups[k]:
        out.append('  * `%s:%s` %s: `%s`' % (r['file'], r.get('line'), r['kind'], (r.get('line_text') or '')[:100]))
out += ['', '## Mutants that only a check saw', '']
for r in rows:
    if r['status'] == 'caught':
        out.append('* `%s:%s` %s `%s` - %s: %s' % (r['file'], r.get('line'), r['kind'], (r.get('line_text') or '')[:70], r['caught_by'], (r.get('first_violation') or '').strip()[:150]))
out += ['', 'Reading: the repository\'s suite is strong against mechanical mutants (%.0f %% killed); of those it lets through, the checks report the ones that '
        'touch a property, and the rest fall outside the properties. The hand-made seeded changes of `seeded/<id>/` (which *do* break a property while '
        'passing the suite) are the sharper instrument; this census guards against blind spots of the people who wrote them.' % (100.0 * c['killed_by_repo_suite'] / len(rows))]
open(os.path.join(here, 'seeded', 'mutation_census.md'), 'w').write('\n'.join(out) + '\n')
print(c, {k: len(v) for k, v in groups.items()})
