#!/usr/bin/env python3
"""Regenerates /verif/MANIFEST.json from the drivers that exist (run by hand, committed)."""
import json
import os

HERE = os.path.dirname(os.path.dirname(os.path.abspath(__file__)))

META = {
 'C01': ('contract on Grammar.parse (icontract) vs. the input text', 'Every generated execution of the real Grammar.parse is judged by a post-condition: root, every node and the leaf tiling reproduce the input exactly. Exploration over ~10^5 (quick) / 10^6 (thorough) hostile inputs, whole files and bytes inputs on all nine grammars; nothing is claimed for inputs not generated.', 'oracle is equality with the input text; bytes decoding trusted to C15'),
 'C02': ('exception observer + shape contract on Grammar.parse; sys.monitoring step budget; CPU-time budget on a killable child process', 'Totality is observed on every generated execution (no exception, well-formed module), also after abandoned prior calls; termination is judged by a logical step budget on LINE events and by a CPU-time budget per input measured on a killable child (sees spins inside C code), never by wall-clock. Exploration: hostile mix, whole files, nesting ladder to depth 95.', 'nesting bounded by construction; estimator only excuses RecursionError above 100 levels'),
 'C03': ('contract on Grammar.parse vs. independent position walker', 'Each leaf/node position of each generated tree is compared with a position computed from the text alone. Exploration biased to multi-line tokens, \\r, non-Python separators, BOM, zero-width error leaves.', 'walker counts only \\n, \\r\\n, \\r; BOM zero width at offset 0'),
 'C04': ('contract on DiffParser.update + fresh-parse reference model after every step (tree signature, parents, code, used names, helper-derived facts)', 'Every step of every generated edit history is compared with a fresh parse (signature, parents, code, used names, facts derived by the helpers and primed on the old tree); DEBUG_DIFF_PARSER asserts switched on as a second alarm. Exploration over histories of 1-8 steps on corpus slices, structured template programs and garbage, in LF / CRLF / bare-CR form, with edits of the tail of the file, long tokens, and 15 % of the histories in a crowded in-memory cache (650 other modules, recent or 20 minutes old).', 'fresh parse is the reference model'),
 'C05': ('conformance walk of every node against an independent EBNF/NFA model', 'Every non-error node of every generated tree is simulated against the NFA of its rule built from the grammar text by an independent reader; error nodes only where stmt/suite is expected. Exploration.', 'six documented tree conventions (DESIGN C05)'),
 'C06': ('bounded-exhaustive + random grammar derivations through the real parser (token and text mode, strict and recovering) vs. the generating derivation; plan-coverage counter', '(a) every rule reachable from file_input/eval_input, in a cheapest context, with every form of its right-hand side and one level of child forms (bounded-exhaustive, capped per rule); (b) random derivations with first-token steering. Each is parsed in token mode and text mode and compared with the derivation under the collapsing conventions; the run reports the fraction of transition plans taken and is inconclusive below a floor.', 'expected-tree conventions written from the property text'),
 'C07': ('both parser modes on one input, compared', 'Strict and recovering parses of each generated input are compared (raises iff error marks; same tree; same first error token/position).', 'zero-width indentation tokens compared by position only'),
 'C08': ('post-condition on generate_grammar: bisimulation with independent NFA + FIRST/push-chain model', 'All shipped grammar files exhaustively (every rule, state, plan) on every run, plus random small EBNF grammars incl. non-LL(1)/left-recursive ones.', 'independent EBNF reader and subset construction'),
 'C09': ('online token-stream checker + contract on split_prefix', 'Each token is checked as it is produced (tiling, position, balance, prefix purity); each prefix split is checked for tiling and part positions. Exploration over hostile text on the nine token collections.', 'prefix purity pattern from the property text'),
 'C10': ('normalised token comparison against CPython 3.6-3.13 tokenize servers', 'Reference-model monitor: each program CPython V tokenizes and compiles is tokenized by parso(V) and compared token by token.', 'CPython tokenize module is the reference; compile-filter defines valid programs'),
 'C11': ('navigation walk + contract on get_leaf_for_position vs. plain leaf list', 'Identity comparison of the navigation API against a plain walk on every generated tree (random-order queries first, then the ordered walk incl. next/previous leaf of inner nodes and the root), every position of small texts; the same on trees that went through incremental updates, where the lookups the diff parser itself made during the update are asked again first.', 'expected leaf = first leaf with end_pos >= pos'),
 'C12': ('contract on iter_errors vs. CPython V and 3.8 compile servers', 'Reference-model monitor over standard libraries, derived and mutated programs that CPython compiles.', 'CPython compile() is the reference; 3.8-compilability = common LL(1) syntax'),
 'C13': ('contract on iter_errors: tree coherence, purity, determinism', 'Every generated tree is listed twice (and again after 40 other texts); issues are checked against the tree\'s own error marks, the strict parser and a before/after signature; sub-trees (functions, classes, suites, error nodes, inner nodes) are listed as well: total, repeatable, inside the file.', 'tree signature decides purity'),
 'C14': ('helper calls on every name/scope/function/import vs. CPython ast', 'Reference-model monitor: facts from ast.parse of the running interpreter vs. parso helpers for each compiled program.', 'CPython 3.12 ast is the reference'),
 'C15': ('contracts on python_bytes_to_unicode and split_lines vs. tokenize.detect_encoding / reference splitter', 'Exploration over byte cookies x blank-ish first lines x BOM x newline styles and separator strings (exhaustive to length 5); for every third random string the driver edits the returned list in place and splits again (results must not be shared between callers).', 'CPython detect_encoding is the reference on its domain'),
 'C16': ('history explorer under a virtual clock; fresh parse of current content as reference', 'Random operation histories incl. writes during an in-flight (plain and diff_cache) parse, memory-cache eviction followed by a cross-grammar parse, version-sensitive contents; files on three modification-time lines (virtual clock, epoch from exactly 0.0, 20 years ahead; every utime read back); virtual time so that no verdict depends on mtime granularity; line-granular injection of the external write.', 'virtual clock rebinding of time in parso.cache'),
 'C17': ('fault enumeration: every truncation offset, corruptions, exception at each fs call site', 'Each enumerated fault (every truncation offset, corruptions, bit flips, stray files, errno at every fs call site with crash snapshots, two processes) is followed by a cached parse that must succeed and equal a fresh parse, and by a repairing save verified on disk; clean-up under the virtual clock with independent access/modification times over complete, empty and half-written entries and with a save by another process in progress.', 'prefix-truncation and arbitrary-content crash models'),
 'C18': ('threads with yield injection on shared grammars; deep state fingerprint at quiescent points', 'Results of concurrent calls compared with sequential replay and a fresh process; fingerprint of all shared parso state before/after; 15 % of the non-caching calls carry the path of a file that sits in the cache with another content and must equal the same call without the path.', 'interleavings at statement granularity (GIL)'),
 'C19': ('eval(dump), pickle and refactor on every generated tree vs. signature / independent splice', 'Exploration over hostile trees, all indent styles, two pickle protocols (fresh trees and trees already queried through the read-only API; the copy must answer the same queries), random disjoint refactor maps, and deep-nesting programs with the first target on the deepest leaf (target depths up to the recursion limit of the walkers).', 'tree signature defines tree equality'),
 'C20': ('contract on _get_normalizer_issues: totality, well-formedness, stability across tree provenance', 'Exploration over whole files, garbage, histories under nine configurations.', 'mechanism-keyed known findings for the crash sites'),
}
CATEGORY = {'C17': 'fault_enumeration'}

checks, na = [], []
for pid in sorted(META):
    tech, text, note = META[pid]
    if os.path.exists(os.path.join(HERE, 'vmon', 'props', pid.lower() + '.py')):
        checks.append({
            'property_id': pid,
            'quick_cmd': './check %s --tier quick' % pid,
            'thorough_cmd': './check %s --tier thorough' % pid,
            'evidence_file': 'evidence/%s.json' % pid,
            'replay_cmd_template': './check %s --replay {path}' % pid,
            'engine': 'vmon',
            'level_claimed': {'category': CATEGORY.get(pid, 'exploration'), 'text': text, 'design_ref': 'DESIGN.md §2 ' + pid},
            'level_note': note,
            'technique': 'runtime monitoring: ' + tech,
        })
    else:
        na.append({'property_id': pid, 'reason': 'check not built yet in this round (designed in DESIGN.md §2 %s); not claimed until its driver exists and is silent on the unchanged tree' % pid})

m = {
 'version': 1,
 'setup_cmd': '/venv/bin/pip install -q --no-index --find-links /opt/veriftools/wheels --target /verif/.deps icontract || true',
 'hooks': {'guard': 'PARSO_VERIF', 'enable': 'no source hooks: monitors are attached from the harness by rebinding attributes of the modules imported from /repo (icontract contracts, generator wrappers, sys.monitoring)',
           'baseline_off_cmd': 'cd /repo && /venv/bin/python -m pytest -ra -q -p no:cacheprovider --timeout=900 --continue-on-collection-errors',
           'source_commits': [], 'add_only': True},
 'engines': [{'name': 'vmon', 'path': 'vmon/', 'serves_properties': [c['property_id'] for c in checks],
              'kind_free_text': 'runtime monitors (icontract post-conditions, online stream checkers, reference-model oracles, invariant walks, fault/yield injection) over generated workloads, sharded over 16 processes'}],
 'checks': checks,
 'not_applicable': na,
 'notes': 'Exit codes: 0 held on everything observed; 1 + VIOLATION line; 2 + INCONCLUSIVE line when a deciding monitor was not reached. PARSO_SRC=<dir> points the checks at another working tree (used for seeded mutants); default /repo.',
}
with open(os.path.join(HERE, 'MANIFEST.json'), 'w') as f:
    json.dump(m, f, indent=1)
    f.write('\n')
print(len(checks), 'checks,', len(na), 'not yet claimed')
