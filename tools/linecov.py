#!/usr/bin/env python3
"""tools/linecov.py <check id> [--tier quick] <parso-relative file>...   -- which executable lines of the anchored files does
the workload of a check never execute?  (a census for widening generators; evidence and replays are redirected, nothing in
/verif/evidence changes).  Lines executed at import time only count as executed."""
import glob, json, os, subprocess, sys, tempfile, shutil

def executable_lines(path):
    src = open(path).read()
    out = set()
    def rec(co):
        for _, _, ln in co.co_lines():
            if ln is not None:
                out.add(ln)
        for c in co.co_consts:
            if hasattr(c, 'co_lines'):
                rec(c)
    rec(compile(src, path, 'exec'))
    return out, src.splitlines()

def main():
    args = sys.argv[1:]
    pid = args.pop(0)
    tier = 'quick'
    if args and args[0] == '--tier':
        args.pop(0); tier = args.pop(0)
    files = args
    verif = os.path.dirname(os.path.dirname(os.path.abspath(__file__)))
    repo = os.environ.get('PARSO_SRC', '/repo')
    d = tempfile.mkdtemp(prefix='vmon-linecov-')
    try:
        env = dict(os.environ, VMON_LINECOV=d, VERIF_EVIDENCE_DIR=os.path.join(d, 'ev'), VERIF_REPLAY_DIR=os.path.join(d, 'rp'))
        p = subprocess.run([os.path.join(verif, 'check'), pid, '--tier', tier], env=env, stdout=subprocess.PIPE, stderr=subprocess.STDOUT, cwd=verif)
        print(p.stdout.decode()[-300:].strip().splitlines()[-1])
        hit = set()
        for f in glob.glob(os.path.join(d, 'cov-*.json')):
            hit.update(tuple(x) for x in json.load(open(f)))
        for rel in files:
            ex, lines = executable_lines(os.path.join(repo, 'parso', rel))
            got = {ln for f, ln in hit if f == rel}
            miss = sorted(ex - got)
            print('== %s: %d executable lines, %d never executed (%.1f%% covered)' % (rel, len(ex), len(miss), 100.0 * (len(ex) - len(miss)) / max(1, len(ex))))
            for ln in miss:
                print('%5d  %s' % (ln, lines[ln - 1][:150]))
    finally:
        shutil.rmtree(d, ignore_errors=True)

main()
