#!/usr/bin/env python3
"""tools/mutation_census.py [--n N] [--seed S] [--jobs J] [--files f1,f2] [--out FILE]

A census of how the quick checks fare against *mechanical* small changes (complementing the hand-made seeded changes of
seeded/): one AST-level mutation per run (comparison operator swapped, and/or swapped, `not` dropped/added, integer constant +-1,
`break`/`continue`/simple statement removed, `if` condition forced, slice bound shifted) in one of parso's source files, in a
scratch copy of the repository outside /repo and /verif.  For each mutant: the repository's own suite must still pass (else the
mutant is dropped: the existing tests already see it), then the checks mapped to the file run against the copy (PARSO_SRC,
evidence and replays redirected) until one reports a violation.  Survivors are listed for inspection: they are either
equivalent / outside every property, or a gap of the checks.  Nothing here is a verdict on /repo and nothing is written to
/verif/evidence.  Results: one JSON line per mutant in --out (default seeded/mutation_census.jsonl)."""
import ast
import concurrent.futures
import copy
import json
import os
import random
import shutil
import subprocess
import sys
import tempfile

HERE = os.path.dirname(os.path.dirname(os.path.abspath(__file__)))
REPO = '/repo'
PY = '/venv/bin/python'
CHECKS = {
    'python/tokenize.py': ['C09', 'C01', 'C10', 'C02'],
    'python/diff.py': ['C04'],
    'parser.py': ['C02', 'C05', 'C06', 'C07'],
    'python/parser.py': ['C02', 'C05', 'C07', 'C01', 'C06'],
    'python/errors.py': ['C13', 'C12'],
    'cache.py': ['C16', 'C17'],
    'utils.py': ['C15', 'C03'],
    'tree.py': ['C11', 'C19', 'C03', 'C01'],
    'python/tree.py': ['C14', 'C19', 'C05', 'C04'],
    'python/pep8.py': ['C20'],
    'normalizer.py': ['C13', 'C20', 'C19'],
    'pgen2/generator.py': ['C08', 'C06'],
    'pgen2/grammar_parser.py': ['C08'],
    'python/prefix.py': ['C03', 'C09', 'C01', 'C20'],
    'grammar.py': ['C16', 'C04', 'C18', 'C15'],
    'file_io.py': ['C16', 'C15'],
}
SWAP = {ast.Eq: ast.NotEq, ast.NotEq: ast.Eq, ast.Lt: ast.LtE, ast.LtE: ast.Lt, ast.Gt: ast.GtE, ast.GtE: ast.Gt,
        ast.Is: ast.IsNot, ast.IsNot: ast.Is, ast.In: ast.NotIn, ast.NotIn: ast.In}


def sites(tree):
    """all (kind, node-index) mutation sites; node-index = position in ast.walk order"""
    out = []
    for i, n in enumerate(ast.walk(tree)):
        if isinstance(n, ast.Compare) and type(n.ops[0]) in SWAP:
            out.append(('cmp', i))
        elif isinstance(n, ast.BoolOp):
            out.append(('boolop', i))
        elif isinstance(n, ast.UnaryOp) and isinstance(n.op, ast.Not):
            out.append(('dropnot', i))
        elif isinstance(n, ast.Constant) and isinstance(n.value, int) and not isinstance(n.value, bool) and abs(n.value) < 1000:
            out.append(('const+', i))
            out.append(('const-', i))
        elif isinstance(n, (ast.If, ast.While)) and not isinstance(n.test, ast.Constant):
            out.append(('iftrue', i))
            out.append(('iffalse', i))
        elif isinstance(n, (ast.Break, ast.Continue)):
            out.append(('dropjump', i))
        elif isinstance(n, ast.Expr) and isinstance(n.value, ast.Call):
            out.append(('dropcall', i))
        elif isinstance(n, (ast.Assign, ast.AugAssign)) and not isinstance(getattr(n, 'value', None), (ast.Constant,)) \
                and isinstance(n, ast.AugAssign):
            out.append(('dropaug', i))
        elif isinstance(n, ast.Slice) and (n.lower is not None or n.upper is not None):
            out.append(('slice', i))
        elif isinstance(n, ast.Return) and n.value is not None and not isinstance(n.value, ast.Constant):
            out.append(('retnone', i))
    return out


def mutate(src, kind, idx):
    tree = ast.parse(src)
    for i, n in enumerate(ast.walk(tree)):
        if i != idx:
            continue
        line = getattr(n, 'lineno', None)
        if kind == 'cmp':
            n.ops[0] = SWAP[type(n.ops[0])]()
        elif kind == 'boolop':
            n.op = ast.Or() if isinstance(n.op, ast.And) else ast.And()
        elif kind == 'dropnot':
            new = copy.deepcopy(n.operand)
            n.__class__ = new.__class__
            n.__dict__.clear()
            n.__dict__.update(new.__dict__)
        elif kind == 'const+':
            n.value += 1
        elif kind == 'const-':
            n.value -= 1
        elif kind == 'iftrue':
            n.test = ast.BoolOp(op=ast.Or(), values=[n.test, ast.Constant(True)])
        elif kind == 'iffalse':
            n.test = ast.BoolOp(op=ast.And(), values=[n.test, ast.Constant(False)])
        elif kind in ('dropjump', 'dropcall', 'dropaug'):
            n.__class__ = ast.Pass
            for k in list(n.__dict__):
                if k not in ('lineno', 'col_offset', 'end_lineno', 'end_col_offset'):
                    del n.__dict__[k]
        elif kind == 'slice':
            tgt = 'lower' if n.lower is not None else 'upper'
            setattr(n, tgt, ast.BinOp(left=getattr(n, tgt), op=ast.Add(), right=ast.Constant(1)))
        elif kind == 'retnone':
            n.value = ast.Constant(None)
        ast.fix_missing_locations(tree)
        return ast.unparse(tree), line
    return None, None


def run_one(job):
    rel, kind, idx, tag = job
    w = tempfile.mkdtemp(prefix='vmutc.')
    res = {'file': rel, 'kind': kind, 'site': idx, 'tag': tag}
    try:
        tree = os.path.join(w, 'tree')
        shutil.copytree(REPO, tree, ignore=shutil.ignore_patterns('.git', '__pycache__', '.pytest_cache', 'build', 'dist', '*.egg-info'))
        path = os.path.join(tree, 'parso', rel)
        src = open(path).read()
        new, line = mutate(src, kind, idx)
        if new is None:
            res['status'] = 'no_site'
            return res
        res['line'] = line
        res['line_text'] = src.splitlines()[line - 1].strip()[:120] if line else None
        try:
            compile(new, path, 'exec')
        except SyntaxError:
            res['status'] = 'invalid'
            return res
        open(path, 'w').write(new)
        env = dict(os.environ, PYTHONDONTWRITEBYTECODE='1')
        try:
            p = subprocess.run([PY, '-m', 'pytest', '-q', '-x', '-p', 'no:cacheprovider', '--timeout=300'], cwd=tree, env=env,
                               stdout=subprocess.PIPE, stderr=subprocess.STDOUT, timeout=900)
        except subprocess.TimeoutExpired:
            res['status'] = 'suite_timeout'
            return res
        if p.returncode != 0:
            res['status'] = 'killed_by_repo_suite'
            return res
        res['status'] = 'survived'
        res['checks'] = {}
        for c in CHECKS[rel]:
            e = dict(env, PARSO_SRC=tree, VERIF_EVIDENCE_DIR=os.path.join(w, 'ev'), VERIF_REPLAY_DIR=os.path.join(w, 'rp'))
            try:
                q = subprocess.run([os.path.join(HERE, 'check'), c, '--tier', 'quick'], cwd=HERE, env=e, stdout=subprocess.PIPE,
                                   stderr=subprocess.STDOUT, timeout=1500)
                rc = q.returncode
                out = q.stdout.decode('utf-8', 'replace')
            except subprocess.TimeoutExpired:
                rc, out = 'timeout', ''
            res['checks'][c] = rc
            if rc == 1:
                res['status'] = 'caught'
                res['caught_by'] = c
                v = [l for l in out.splitlines() if l.startswith('  violation')]
                res['first_violation'] = v[0][:200] if v else None
                break
            if rc == 2:
                res['inconclusive'] = [l[:160] for l in out.splitlines() if l.startswith('INCONCLUSIVE')][:2]
        return res
    finally:
        shutil.rmtree(w, ignore_errors=True)


def main():
    a = sys.argv[1:]
    opt = {'--n': '60', '--seed': '1', '--jobs': '3', '--files': ','.join(CHECKS), '--out': os.path.join(HERE, 'seeded', 'mutation_census.jsonl')}
    while a:
        k = a.pop(0)
        opt[k] = a.pop(0)
    rng = random.Random(int(opt['--seed']))
    allsites = []
    for rel in opt['--files'].split(','):
        src = open(os.path.join(REPO, 'parso', rel)).read()
        for kind, idx in sites(ast.parse(src)):
            allsites.append((rel, kind, idx))
    rng.shuffle(allsites)
    jobs = [(rel, kind, idx, 'seed%s' % opt['--seed']) for rel, kind, idx in allsites[:int(opt['--n'])]]
    if '--only' in opt:      # file:kind:site,... (re-run of mutants whose checks were inconclusive on a loaded machine)
        jobs = [(a, b, int(c), 'rerun') for a, b, c in (x.split(':') for x in opt['--only'].split(','))]
    print('%d sites in total, running %d' % (len(allsites), len(jobs)), flush=True)
    with concurrent.futures.ThreadPoolExecutor(int(opt['--jobs'])) as ex, open(opt['--out'], 'a') as f:
        for res in ex.map(run_one, jobs):
            f.write(json.dumps(res) + '\n')
            f.flush()
            print('%-24s %-9s line %-5s %-22s %s' % (res['file'], res['kind'], res.get('line'), res['status'],
                                                    res.get('caught_by') or (res.get('line_text') if res['status'] == 'survived' else '')), flush=True)


main()
