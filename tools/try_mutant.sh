#!/bin/sh
# tools/try_mutant.sh <patch.diff> <demo.py|-> <check ids...>
# Applies the patch in a scratch worktree of /repo (outside /repo and /verif), runs the repository's own
# suite and the demonstration, then the given checks against that tree (PARSO_SRC), evidence/replays redirected.
patch=$(readlink -f "$1"); demo="$2"; shift 2
w=$(mktemp -d /tmp/vmut.XXXXXX)
git -C /repo worktree add -q --detach "$w/tree" HEAD || exit 9
trap 'git -C /repo worktree remove --force "$w/tree" 2>/dev/null; rm -rf "$w"' EXIT
( cd "$w/tree" && git apply "$patch" ) || { echo "PATCH DOES NOT APPLY"; exit 8; }
echo "== repo suite with the change:"; ( cd "$w/tree" && /venv/bin/python -m pytest -q -p no:cacheprovider -x 2>&1 | tail -1 )
if [ "$demo" != "-" ]; then
  echo "== demo with the change:"; /venv/bin/python "$demo" "$w/tree" >"$w/demo.out" 2>&1; echo "   exit=$? $(tail -1 "$w/demo.out" | cut -c1-160)"
  echo "== demo without the change:"; /venv/bin/python "$demo" /repo >"$w/demo0.out" 2>&1; echo "   exit=$? $(tail -1 "$w/demo0.out" | cut -c1-160)"
fi
cd /verif
for id in "$@"; do
  tier=${VERIF_TIER:-quick}
  PARSO_SRC="$w/tree" VERIF_EVIDENCE_DIR="$w/ev" VERIF_REPLAY_DIR="$w/replay" ./check "$id" --tier "$tier" >"$w/$id.out" 2>&1
  rc=$?
  echo "== $id rc=$rc $(grep -c '^VIOLATION' "$w/$id.out") violation lines; $(grep -E '^  violation' "$w/$id.out" | head -2 | cut -c1-220)"
  grep -E '^INCONCLUSIVE' "$w/$id.out" | head -2 | cut -c1-200
done
