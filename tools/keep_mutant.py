#!/usr/bin/env python3
"""tools/keep_mutant.py <src OUT dir> <A|B> <seeded id> <property> <caught_by csv> <missed_by csv>  -- archive a confirmed seeded change"""
import json, os, shutil, sys
src, ab, sid, prop, caught, missed = sys.argv[1:7]
d = os.path.join(os.path.dirname(os.path.dirname(os.path.abspath(__file__))), 'seeded', sid)
os.makedirs(d, exist_ok=True)
shutil.copy(os.path.join(src, ab + '.diff'), os.path.join(d, 'patch.diff'))
shutil.copy(os.path.join(src, ab + '_demo.py'), os.path.join(d, 'demo.py'))
notes = open(os.path.join(src, ab + '.md')).read() if os.path.exists(os.path.join(src, ab + '.md')) else ''
meta = {'id': sid, 'breaks_property': prop, 'origin': 'independent sub-agent given only the property text and a scratch worktree',
        'what_and_needs': notes.strip(),
        'confirmed': 'tools/try_mutant.sh seeded/%s/patch.diff seeded/%s/demo.py <checks>: repo suite 1987 passed with the change; demo exits 1 with the change and 0 on /repo' % (sid, sid),
        'caught_by_quick_checks': [c for c in caught.split(',') if c], 'not_caught_by': [c for c in missed.split(',') if c]}
json.dump(meta, open(os.path.join(d, 'meta.json'), 'w'), indent=1)
print('kept', d)
