#!/venv/bin/python
"""Census of exception sites for a property driver whose violations carry detail.exc:
   tools/census.py C20 20000 [seed]   -> one minimised witness per (type, func, line)"""
import importlib
import json
import os
import random
import sys

sys.path.insert(0, os.path.dirname(os.path.dirname(os.path.abspath(__file__))))
from vmon import harness  # noqa
from vmon.gen import text as G  # noqa
harness.ensure_deps()
harness.import_parso()
pid = sys.argv[1]
N = int(sys.argv[2])
seed = int(sys.argv[3]) if len(sys.argv) > 3 else 0
mod = importlib.import_module('vmon.props.' + pid.lower())


def sites(wit):
    ctx = harness.Ctx(pid)
    try:
        mod.replay(wit, ctx)
    except Exception:
        pass
    out = set()
    for v in ctx.violations + list(ctx.known_ex.values()):
        e = (v.get('detail') or {}).get('exc')
        if e:
            out.add((v['kind'], e['type'], e['func'], e['line']))
    return out


def minimise(wit, site):
    code = wit['code']
    for unit in ('line', 'char'):
        parts = code.splitlines(True) if unit == 'line' else list(code)
        n = 2
        while len(parts) >= 2:
            chunk = max(1, len(parts) // n)
            red = False
            for i in range(0, len(parts), chunk):
                cand = parts[:i] + parts[i + chunk:]
                if cand and site in sites(dict(wit, code=''.join(cand))):
                    parts, n, red = cand, max(n - 1, 2), True
                    break
            if not red:
                if chunk == 1:
                    break
                n = min(n * 2, len(parts))
        code = ''.join(parts)
    return dict(wit, code=code)


rng = random.Random(seed)
files = G.corpus_files()
cfgs = ['default', 'tab/79', '2sp/20', '4sp/200']
found = {}
for i in range(N):
    code = G.hostile(rng, files, trig=.3)
    wit = {'version': harness.VERSIONS[i % 9], 'code': code, 'config': cfgs[i % 4]}
    for s in sites(wit):
        if s not in found or len(code) < len(found[s]['code']):
            found[s] = wit
for s, wit in sorted(found.items()):
    m = minimise(wit, s)
    print(json.dumps({'site': s, 'witness': m}))
